module verifinstr

go 1.21
