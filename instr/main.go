// instr generates a `go build -overlay` file that instruments the CURRENT working
// tree of gobuffalo/plush without touching it:
//
//   - vtick.Tick() at every function entry and loop body of every non-test file
//     (step budget => hangs and runaway recursion become verdicts, not timeouts);
//     in the root package and helpers/map.go the call is vtick.TickS(), which is
//     additionally a scheduling point of the cooperative scheduler (C14);
//   - import "sync" rewritten to the scheduler-aware shim vsync;
//   - the virtual packages vtick and vsync added to the plush module;
//   - (optional) runtime/map.go patched so the random word used by mapiterinit is
//     supplied by the harness (map iteration order becomes an enumerable choice).
//
// Insertion is textual at AST positions, so line numbers are preserved.
package main

import (
	"encoding/json"
	"flag"
	"fmt"
	"go/ast"
	"go/parser"
	"go/token"
	"os"
	"path/filepath"
	"sort"
	"strings"
)

const modPath = "github.com/gobuffalo/plush/v5"

type ins struct {
	off  int
	text string
}

func main() {
	repo := flag.String("repo", "/repo", "plush tree")
	out := flag.String("out", "", "output dir")
	ovsrc := flag.String("ovsrc", "/verif/ovsrc", "dir with vtick/vsync/runtime sources")
	goroot := flag.String("goroot", "", "GOROOT (enables runtime map overlay)")
	noTick := flag.Bool("notick", false, "do not instrument (only add virtual packages as no-ops)")
	flag.Parse()
	if *out == "" {
		fatal("need -out")
	}
	os.RemoveAll(*out)
	must(os.MkdirAll(*out, 0o755))
	replace := map[string]string{}

	n := 0
	err := filepath.Walk(*repo, func(p string, info os.FileInfo, err error) error {
		if err != nil {
			return err
		}
		if info.IsDir() {
			b := info.Name()
			if p != *repo && (strings.HasPrefix(b, ".") || b == "vendor" || b == "testdata") {
				return filepath.SkipDir
			}
			if p != *repo {
				if _, e := os.Stat(filepath.Join(p, "go.mod")); e == nil {
					return filepath.SkipDir
				}
			}
			return nil
		}
		if !strings.HasSuffix(p, ".go") || strings.HasSuffix(p, "_test.go") {
			return nil
		}
		rel, _ := filepath.Rel(*repo, p)
		if *noTick {
			return nil
		}
		src, e := os.ReadFile(p)
		if e != nil {
			return e
		}
		res, e := instrument(p, rel, src)
		if e != nil {
			return fmt.Errorf("%s: %v", p, e)
		}
		if res == nil {
			return nil
		}
		dst := filepath.Join(*out, "src", rel)
		must(os.MkdirAll(filepath.Dir(dst), 0o755))
		must(os.WriteFile(dst, res, 0o644))
		replace[p] = dst
		n++
		return nil
	})
	if err != nil {
		fatal(err.Error())
	}

	// virtual packages
	for _, pkg := range []string{"vtick", "vsync"} {
		ents, e := os.ReadDir(filepath.Join(*ovsrc, pkg))
		if e != nil {
			fatal(e.Error())
		}
		for _, ent := range ents {
			if strings.HasSuffix(ent.Name(), ".go") {
				replace[filepath.Join(*repo, pkg, ent.Name())] = filepath.Join(*ovsrc, pkg, ent.Name())
			}
		}
	}

	if *goroot != "" {
		mp := filepath.Join(*goroot, "src", "runtime", "map.go")
		src, e := os.ReadFile(mp)
		if e != nil {
			fatal(e.Error())
		}
		const anchor = "r := uintptr(rand())"
		if c := strings.Count(string(src), anchor); c != 1 {
			fatal(fmt.Sprintf("runtime/map.go: anchor %q found %d times (want 1); this Go version is not supported by the map-order overlay", anchor, c))
		}
		patched := strings.Replace(string(src), anchor, "r := uintptr(verifMapRand())", 1)
		dst := filepath.Join(*out, "runtime_map.go")
		must(os.WriteFile(dst, []byte(patched), 0o644))
		replace[mp] = dst
		replace[filepath.Join(*goroot, "src", "runtime", "verifseed.go")] = filepath.Join(*ovsrc, "runtime", "verifseed.go")
	}

	b, _ := json.MarshalIndent(map[string]interface{}{"Replace": replace}, "", " ")
	must(os.WriteFile(filepath.Join(*out, "overlay.json"), b, 0o644))
	fmt.Fprintf(os.Stderr, "instr: %d files instrumented, overlay at %s\n", n, filepath.Join(*out, "overlay.json"))
}

func instrument(path, rel string, src []byte) ([]byte, error) {
	fset := token.NewFileSet()
	f, err := parser.ParseFile(fset, path, src, parser.ParseComments)
	if err != nil {
		return nil, err
	}
	sched := !strings.Contains(rel, string(filepath.Separator)) || rel == filepath.Join("helpers", "map.go")
	call := "vtick.Tick();"
	if sched {
		call = "vtick.TickS();"
	}
	var list []ins
	off := func(p token.Pos) int { return fset.Position(p).Offset }
	ast.Inspect(f, func(n ast.Node) bool {
		switch t := n.(type) {
		case *ast.FuncDecl:
			if t.Body != nil {
				list = append(list, ins{off(t.Body.Lbrace) + 1, call})
			}
		case *ast.FuncLit:
			list = append(list, ins{off(t.Body.Lbrace) + 1, call})
		case *ast.ForStmt:
			list = append(list, ins{off(t.Body.Lbrace) + 1, call})
		case *ast.RangeStmt:
			list = append(list, ins{off(t.Body.Lbrace) + 1, call})
		}
		return true
	})
	// sync -> vsync
	syncRewritten := false
	for _, im := range f.Imports {
		if im.Path.Value == `"sync"` && im.Name == nil {
			s, e := off(im.Path.Pos()), off(im.Path.End())
			list = append(list, ins{s, "sync \"" + modPath + "/vsync\" /*"})
			list = append(list, ins{e, "*/"})
			syncRewritten = true
		}
	}
	if len(list) == 0 {
		return nil, nil
	}
	needTick := false
	for _, i := range list {
		if strings.HasPrefix(i.text, "vtick.") {
			needTick = true
		}
	}
	_ = syncRewritten
	if needTick {
		list = append(list, ins{off(f.Name.End()), ";import vtick \"" + modPath + "/vtick\""})
	}
	sort.SliceStable(list, func(i, j int) bool { return list[i].off < list[j].off })
	var sb strings.Builder
	prev := 0
	for _, i := range list {
		sb.Write(src[prev:i.off])
		sb.WriteString(i.text)
		prev = i.off
	}
	sb.Write(src[prev:])
	return []byte(sb.String()), nil
}

func must(err error) {
	if err != nil {
		fatal(err.Error())
	}
}

func fatal(s string) {
	fmt.Fprintln(os.Stderr, "instr: "+s)
	os.Exit(2)
}
