// Package sched is a cooperative scheduler for stateless exploration of thread
// interleavings of the real (overlay-instrumented) plush code: managed threads
// run one at a time and hand control back at every scheduling point
// (vtick.TickS at function entries/loop heads of the root package, every
// vsync lock operation). Explore enumerates all schedules with at most
// `bound` preemptions (iterative context bounding, depth-first over choice
// prefixes); an out-of-range choice while replaying a prefix is a hard error.
package sched

import (
	"fmt"
	"time"

	"github.com/gobuffalo/plush/v5/vsync"
	"github.com/gobuffalo/plush/v5/vtick"
)

type thread struct {
	id      int
	resume  chan struct{}
	done    bool
	waiting func() bool
	body    func()
	panicV  interface{}
}

// Point describes one scheduling decision of an execution.
type Point struct {
	Enabled        int  // number of enabled threads
	RunningEnabled bool // the previously running thread was still enabled (switching away = preemption)
	Choice         int
}

// Exec is the record of one complete execution.
type Exec struct {
	Points   []Point
	Deadlock bool
	Panics   []interface{}
	Steps    int
}

type run struct {
	threads []*thread
	cur     int
	yield   chan struct{}
	prefix  []int
	exec    Exec
	maxStep int
	abort   bool
}

var active *run

func point() {
	r := active
	if r == nil || r.cur < 0 {
		return
	}
	t := r.threads[r.cur]
	r.yield <- struct{}{}
	<-t.resume
	if r.abort {
		panic(abortSentinel{})
	}
}

type abortSentinel struct{}

func wait(ready func() bool) {
	r := active
	if r == nil || r.cur < 0 {
		if !ready() {
			panic("sched: blocking wait outside a managed thread")
		}
		return
	}
	point() // scheduling point before the acquire
	t := r.threads[r.cur]
	for !ready() {
		t.waiting = ready
		r.yield <- struct{}{}
		<-t.resume
		if r.abort {
			panic(abortSentinel{})
		}
		t.waiting = nil
	}
}

// Run executes the bodies as managed threads under the schedule given by
// prefix (then always choice 0: keep running the current thread).
func Run(bodies []func(), prefix []int, maxSteps int) (*Exec, error) {
	r := &run{yield: make(chan struct{}), prefix: prefix, cur: -1, maxStep: maxSteps}
	for i, b := range bodies {
		r.threads = append(r.threads, &thread{id: i, resume: make(chan struct{}), body: b})
	}
	active = r
	vtick.Sched = point
	vsync.Wait = wait
	vsync.Point = point
	defer func() {
		active = nil
		vtick.Sched = nil
		vsync.Wait = nil
		vsync.Point = nil
	}()
	for _, t := range r.threads {
		t := t
		go func() {
			<-t.resume
			defer func() {
				if p := recover(); p != nil {
					if _, ok := p.(abortSentinel); !ok {
						t.panicV = p
					}
				}
				t.done = true
				r.yield <- struct{}{}
			}()
			if !r.abort {
				t.body()
			}
		}()
	}
	last := -1
	var err error
	for {
		// enabled threads in canonical order: the running thread first, then ascending ids
		var en []int
		runningEnabled := false
		if last >= 0 && r.enabled(last) {
			en = append(en, last)
			runningEnabled = true
		}
		for i := range r.threads {
			if i != last && r.enabled(i) {
				en = append(en, i)
			}
		}
		if len(en) == 0 {
			alive := false
			for _, t := range r.threads {
				if !t.done {
					alive = true
				}
			}
			if alive {
				r.exec.Deadlock = true
				r.abortAll()
			}
			break
		}
		choice := 0
		idx := len(r.exec.Points)
		if idx < len(prefix) {
			choice = prefix[idx]
			if choice >= len(en) {
				err = fmt.Errorf("replay divergence: choice %d at point %d but only %d threads enabled", choice, idx, len(en))
				r.abortAll()
				break
			}
		}
		r.exec.Points = append(r.exec.Points, Point{Enabled: len(en), RunningEnabled: runningEnabled, Choice: choice})
		r.exec.Steps++
		if r.exec.Steps > maxSteps {
			err = fmt.Errorf("step limit %d exceeded (livelock?)", maxSteps)
			r.abortAll()
			break
		}
		tid := en[choice]
		last = tid
		r.cur = tid
		r.threads[tid].resume <- struct{}{}
		<-r.yield
		r.cur = -1
	}
	for _, t := range r.threads {
		if t.panicV != nil {
			r.exec.Panics = append(r.exec.Panics, t.panicV)
		}
	}
	return &r.exec, err
}

func (r *run) enabled(i int) bool {
	t := r.threads[i]
	if t.done {
		return false
	}
	if t.waiting != nil {
		return t.waiting()
	}
	return true
}

// abortAll unblocks every unfinished thread so that its goroutine exits.
func (r *run) abortAll() {
	r.abort = true
	for _, t := range r.threads {
		for !t.done {
			r.cur = t.id
			t.resume <- struct{}{}
			<-r.yield
		}
	}
	r.cur = -1
}

// Stats of an exploration.
type Stats struct {
	Schedules   int
	Points      int64
	MaxPoints   int
	Truncated   bool
	BoundUsed   int
	Divergences int
}

// Explore enumerates every schedule with at most bound preemptions (bound < 0: unbounded).
// mk builds fresh bodies for each execution; check inspects the finished execution and
// returns a non-empty message on violation (exploration stops at the first one).
// Deadline, when set, makes Explore stop (Stats.Truncated) once it has passed: the caller reports the largest
// bound it completed and marks the run as not exhaustive for the bound that was cut short.
var Deadline time.Time

func Explore(mk func() []func(), bound int, maxSchedules int, maxSteps int, check func(x *Exec, schedule []int) string) (Stats, string, []int) {
	var st Stats
	st.BoundUsed = bound
	var fail string
	var failSched []int
	var rec func(prefix []int)
	rec = func(prefix []int) {
		if fail != "" || st.Truncated {
			return
		}
		if maxSchedules > 0 && st.Schedules >= maxSchedules {
			st.Truncated = true
			return
		}
		if !Deadline.IsZero() && st.Schedules&15 == 0 && time.Now().After(Deadline) {
			st.Truncated = true
			return
		}
		x, err := Run(mk(), prefix, maxSteps)
		st.Schedules++
		st.Points += int64(len(x.Points))
		if len(x.Points) > st.MaxPoints {
			st.MaxPoints = len(x.Points)
		}
		sched := make([]int, len(x.Points))
		for i, p := range x.Points {
			sched[i] = p.Choice
		}
		if err != nil {
			fail, failSched = "scheduler: "+err.Error(), sched
			st.Divergences++
			return
		}
		if x.Deadlock {
			fail, failSched = "deadlock: no enabled thread while some are unfinished", sched
			return
		}
		if len(x.Panics) > 0 {
			fail, failSched = fmt.Sprintf("panic in a thread: %v", x.Panics[0]), sched
			return
		}
		if m := check(x, sched); m != "" {
			fail, failSched = m, sched
			return
		}
		// preemptions used before each point
		cost := 0
		costs := make([]int, len(x.Points))
		for i, p := range x.Points {
			costs[i] = cost
			if p.RunningEnabled && p.Choice != 0 {
				cost++
			}
		}
		for i := len(prefix); i < len(x.Points); i++ {
			p := x.Points[i]
			c := costs[i]
			for alt := 1; alt < p.Enabled; alt++ {
				ac := c
				if p.RunningEnabled {
					ac++
				}
				if bound >= 0 && ac > bound {
					continue
				}
				np := make([]int, i+1)
				copy(np, sched[:i])
				np[i] = alt
				rec(np)
				if fail != "" || st.Truncated {
					return
				}
			}
		}
	}
	rec(nil)
	return st, fail, failSched
}
