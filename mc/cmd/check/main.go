// check is the single CLI of the plush verification harness.
//
//	check <ID> <quick|thorough>          explore, write evidence, exit 0/1
//	check <ID> --replay <file>           re-execute one recorded case, exit 0/1
//	check --worker <ID> <tier> <shard>   (internal) run one shard
//	check --list
package main

import (
	"encoding/json"
	"fmt"
	"os"
	"strconv"

	"verifmc/engine"
	"verifmc/props"
)

func usage() {
	fmt.Fprintln(os.Stderr, "usage: check <ID> <quick|thorough> | check <ID> --replay <file> | check --list")
	os.Exit(2)
}

func main() {
	a := os.Args[1:]
	if len(a) == 0 {
		usage()
	}
	seed := int64(0)
	if s := os.Getenv("VERIF_SEED"); s != "" {
		seed, _ = strconv.ParseInt(s, 10, 64)
	}
	switch {
	case a[0] == "--list":
		for _, id := range engine.IDs() {
			fmt.Println(id)
		}
	case a[0] == "--race-scenario":
		// (internal) run one free-running scenario inside the -race build
		if len(a) < 4 {
			usage()
		}
		g, _ := strconv.Atoi(a[2])
		r, _ := strconv.Atoi(a[3])
		if msg := props.RunRaceScenario(a[1], g, r); msg != "" {
			fmt.Println("RESULT-MISMATCH " + msg)
		}
	case a[0] == "--worker":
		if len(a) < 4 {
			usage()
		}
		p := engine.Lookup(a[1])
		if p == nil {
			fmt.Fprintln(os.Stderr, "unknown property", a[1])
			os.Exit(2)
		}
		th := a[2] == "thorough"
		from, careful := int64(0), false
		for i := 4; i < len(a); i++ {
			switch a[i] {
			case "--from":
				from, _ = strconv.ParseInt(a[i+1], 10, 64)
				i++
			case "--seed":
				seed, _ = strconv.ParseInt(a[i+1], 10, 64)
				i++
			case "--careful":
				careful = true
			}
		}
		s, _ := engine.RunWorker(p, th, a[3], seed, from, careful, "", false)
		b, _ := json.Marshal(s)
		fmt.Printf("SUMMARY %s\n", b)
	case len(a) >= 3 && a[1] == "--replay":
		p := engine.Lookup(a[0])
		if p == nil {
			fmt.Fprintln(os.Stderr, "unknown property", a[0])
			os.Exit(2)
		}
		b, err := os.ReadFile(a[2])
		if err != nil {
			fmt.Fprintln(os.Stderr, err)
			os.Exit(2)
		}
		var v engine.Violation
		if err := json.Unmarshal(b, &v); err != nil {
			fmt.Fprintln(os.Stderr, err)
			os.Exit(2)
		}
		s, hit := engine.RunWorker(p, v.Tier == "thorough", v.Shard, seed, 0, false, v.Key, true)
		if !hit {
			fmt.Printf("replay: case %s not found in shard %s (%s) - the enumeration changed\n", v.Key, v.Shard, v.Tier)
			os.Exit(2)
		}
		if s.NViolations > 0 {
			fmt.Printf("VIOLATION property=%s replay=%s\n", p.ID, a[2])
			os.Exit(1)
		}
		fmt.Println("replay: case passes")
	case len(a) == 2 && (a[1] == "quick" || a[1] == "thorough"):
		p := engine.Lookup(a[0])
		if p == nil {
			fmt.Fprintln(os.Stderr, "unknown property", a[0])
			os.Exit(2)
		}
		os.Exit(engine.RunParent(p, a[1] == "thorough", seed))
	default:
		usage()
	}
}
