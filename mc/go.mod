module verifmc

go 1.21

require github.com/gobuffalo/plush/v5 v5.0.0

replace github.com/gobuffalo/plush/v5 => /repo
