module verifmc

go 1.21

require github.com/gobuffalo/plush/v5 v5.0.0

require github.com/gobuffalo/flect v1.0.2 // indirect

replace github.com/gobuffalo/plush/v5 => /repo
