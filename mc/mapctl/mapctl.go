// Package mapctl talks to the runtime overlay (ovsrc/runtime/verifseed.go): while
// on, every map-iteration start (range over a map, reflect MapKeys/MapRange) takes
// its "random" word from a script, default 0.
package mapctl

import _ "unsafe"

//go:linkname verifMapCtl runtime.verifMapCtl
func verifMapCtl(on bool, script []uint64) int

// Begin installs a script of answers (one per map-iteration call, 0 beyond it).
func Begin(script []uint64) { verifMapCtl(true, script) }

// End turns the hook off and returns how many map-iteration calls were answered.
func End() int { return verifMapCtl(false, nil) }
