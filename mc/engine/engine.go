// Package engine is the bounded-exhaustive exploration engine shared by all
// property checks: a property enumerates cases (shard by shard), every case is
// executed on the real implementation under a guard (panic recovery + step
// budget), compared with its oracle, and tallied. A parent process distributes
// shards over worker subprocesses, attributes worker crashes to the case in
// flight, matches violations against known_findings.txt and writes the evidence.
package engine

import (
	"bufio"
	"encoding/json"
	"fmt"
	"hash/fnv"
	"os"
	"runtime/debug"
	"sort"
	"strings"

	"github.com/gobuffalo/plush/v5/vtick"
)

// Prop is one property check.
type Prop struct {
	ID string
	// Shards lists the shard names for a tier; shards partition the case space.
	Shards func(thorough bool) []string
	// Run enumerates and executes every case of one shard.
	Run func(t *T, shard string)
	// Rule describes enumeration and the non-triviality predicate (evidence).
	Rule string
	// Bound describes the bound completed per tier.
	Bound       func(thorough bool) string
	Assumptions []string
	// Budget is the step budget per case (ticks); 0 = default.
	Budget int64
}

var registry = map[string]*Prop{}

func Register(p *Prop) { registry[p.ID] = p }

func Lookup(id string) *Prop { return registry[id] }

func IDs() []string {
	var ids []string
	for k := range registry {
		ids = append(ids, k)
	}
	sort.Strings(ids)
	return ids
}

// Fail describes a violated oracle.
type Fail struct {
	Kind    string `json:"kind"`              // panic | hang | mismatch | ...
	Msg     string `json:"msg"`               // what was expected / observed
	Pattern string `json:"pattern,omitempty"` // pattern-id for known-finding matching
	// Loose: the failure comes from a dynamic detector whose report text varies between runs
	// (race detector); re-executions are compared by kind only and a report that does not
	// recur is still a report (a race report is never a false positive).
	Loose bool `json:"loose,omitempty"`
}

func Failf(kind, format string, a ...interface{}) *Fail {
	return &Fail{Kind: kind, Msg: fmt.Sprintf(format, a...)}
}

// Violation is a failed case as reported by a worker.
type Violation struct {
	Property string `json:"property"`
	Tier     string `json:"tier"`
	Shard    string `json:"shard"`
	Index    int64  `json:"index"`
	Key      string `json:"key"`
	Desc     string `json:"desc"`
	Fail
	Reproduced int  `json:"reproduced"` // identical re-executions (out of 5)
	Flaky      bool `json:"flaky,omitempty"`
}

// Summary is what a worker prints (one JSON line) when its shard is done.
type Summary struct {
	Shard       string           `json:"shard"`
	Evaluations int64            `json:"evaluations"`
	States      int64            `json:"states"`
	Transitions int64            `json:"transitions"`
	Traces      int64            `json:"traces"`
	NonTrivial  int64            `json:"nontrivial"`
	Classes     map[string]int64 `json:"classes"`
	Samples     []string         `json:"samples"`
	Violations  []Violation      `json:"violations"`
	NViolations int64            `json:"nviolations"`
	MaxTicks    int64            `json:"max_ticks"`
	Extra       map[string]int64 `json:"extra,omitempty"`
	Incomplete  bool             `json:"incomplete,omitempty"`
}

// T is the per-shard execution context handed to Prop.Run.
type T struct {
	Prop     *Prop
	Thorough bool
	Shard    string
	Seed     int64

	sum        Summary
	seen       map[uint64]struct{}
	idx        int64
	from       int64  // skip cases with index < from
	only       string // replay: only the case with this key
	careful    *bufio.Writer
	verbose    bool
	budget     int64
	maxViol    int
	patCount   map[string]int
	plainCount int
	plainTotal int64
	replayHit  bool
	// Pattern, when set by the property before calling Case, is attached to a
	// failure of that case (known-finding pattern id); it is reset by Case.
	Pattern string
	// ManualCounts: the property reports states/transitions itself (State, Edge).
	ManualCounts bool
}

func key(desc string) (uint64, string) {
	h := fnv.New64a()
	h.Write([]byte(desc))
	v := h.Sum64()
	return v, fmt.Sprintf("%016x", v)
}

// Count adds to a named extra counter reported in the evidence.
func (t *T) Count(name string, n int64) {
	if t.sum.Extra == nil {
		t.sum.Extra = map[string]int64{}
	}
	t.sum.Extra[name] += n
}

// Edge records explored transitions that are not themselves cases.
func (t *T) Edge(n int64) { t.sum.Transitions += n }

// State records explored states that are not themselves cases.
func (t *T) State(n int64) { t.sum.States += n }

// Trace records model traces replayed against the implementation.
func (t *T) Trace(n int64) { t.sum.Traces += n }

// Replaying reports whether this run only looks for one case.
func (t *T) Replaying() bool { return t.only != "" }

// Case executes one case. desc must identify the case completely (it is the
// canonical form hashed into the case key). run executes the real code and the
// oracle; it returns an outcome class and nil, or a Fail. run must be
// re-runnable (fresh objects on every call): failures are re-executed 5 times.
// MarkIncomplete records that an internal deadline cut an exploration short: the check still exits 0 when nothing
// was violated, its evidence says exhaustive=false and counts the caps under the given name.
func (t *T) MarkIncomplete(counter string) {
	t.sum.Incomplete = true
	t.Count(counter, 1)
}

func (t *T) Case(desc string, nontrivial bool, run func() (string, *Fail)) {
	i := t.idx
	t.idx++
	pattern := t.Pattern
	t.Pattern = ""
	if i < t.from {
		return
	}
	if t.plainTotal >= 400 && t.only == "" && pattern == "" {
		// this shard has failed beyond doubt: stop spending time on it (reported as not exhaustive)
		t.sum.Incomplete = true
		return
	}
	hv, k := key(desc)
	if t.only != "" {
		if k != t.only {
			return
		}
		t.replayHit = true
	}
	if t.careful != nil {
		fmt.Fprintf(t.careful, "BEGIN %d %s %s\n", i, k, jsonStr(desc))
		t.careful.Flush()
	}
	t.sum.Evaluations++
	t.sum.Traces++
	if !t.ManualCounts {
		t.sum.States++
		t.sum.Transitions++
	}
	if nontrivial {
		if _, ok := t.seen[hv]; !ok {
			t.seen[hv] = struct{}{}
			t.sum.NonTrivial++
		}
	}
	class, f := t.guard(run)
	if vtick.N > t.sum.MaxTicks {
		t.sum.MaxTicks = vtick.N
	}
	vtick.Reset(vtick.Off)
	if f == nil {
		t.sum.Classes[class]++
		if len(t.sum.Samples) < 3 || (nontrivial && len(t.sum.Samples) < 6) {
			t.sum.Samples = append(t.sum.Samples, desc+" => "+class)
		}
	} else {
		if f.Pattern == "" {
			f.Pattern = pattern
		}
		t.sum.Classes["VIOLATION:"+f.Kind]++
		t.sum.NViolations++
		v := Violation{Property: t.Prop.ID, Tier: tierName(t.Thorough), Shard: t.Shard, Index: i, Key: k, Desc: desc, Fail: *f}
		// cases tagged with a finding pattern have a cap of their own, so that a listed finding
		// can never use up the room of violations that are not listed
		record := false
		if f.Pattern == "" {
			t.plainTotal++
		}
		if f.Pattern != "" {
			if t.patCount == nil {
				t.patCount = map[string]int{}
			}
			if t.patCount[f.Pattern] < 10 {
				t.patCount[f.Pattern]++
				record = true
			}
		} else if t.plainCount < t.maxViol {
			t.plainCount++
			record = true
		}
		if record {
			for r := 0; r < 5; r++ {
				_, f2 := t.guard(run)
				vtick.Reset(vtick.Off)
				if f2 != nil && f2.Kind == f.Kind && (f2.Msg == f.Msg || f.Loose) {
					v.Reproduced++
				}
			}
			v.Flaky = v.Reproduced != 5 && !f.Loose
			t.sum.Violations = append(t.sum.Violations, v)
		}
		if t.verbose {
			b, _ := json.MarshalIndent(v, "", " ")
			fmt.Println(string(b))
		}
	}
	if t.careful != nil {
		fmt.Fprintf(t.careful, "END %d\n", i)
		t.careful.Flush()
	}
}

func tierName(th bool) string {
	if th {
		return "thorough"
	}
	return "quick"
}

func jsonStr(s string) string {
	b, _ := json.Marshal(s)
	return string(b)
}

func (t *T) guard(run func() (string, *Fail)) (class string, f *Fail) {
	defer func() {
		if r := recover(); r != nil {
			if _, ok := r.(vtick.Budget); ok || vtick.Exhausted {
				f = &Fail{Kind: "hang", Msg: fmt.Sprintf("step budget of %d ticks exhausted (non-termination or runaway recursion)", t.budget)}
				return
			}
			st := string(debug.Stack())
			f = &Fail{Kind: "panic", Msg: fmt.Sprintf("panic: %v @ %s", r, panicSite(st))}
		}
	}()
	vtick.Reset(t.budget)
	class, f = run()
	if f == nil && vtick.Exhausted {
		// a recover() inside the code under test swallowed the budget panic
		f = &Fail{Kind: "hang", Msg: fmt.Sprintf("step budget of %d ticks exhausted (swallowed)", t.budget)}
	}
	return
}

// Guard runs f under the step budget and panic recovery (for use inside a
// case when the oracle wants to treat panics itself).
func Guard(budget int64, f func()) (panicked interface{}, hung bool, site string) {
	saveN, saveL := vtick.N, vtick.Limit
	defer func() {
		if r := recover(); r != nil {
			if _, ok := r.(vtick.Budget); ok || vtick.Exhausted {
				hung = true
			} else {
				panicked = r
				site = panicSite(string(debug.Stack()))
			}
		}
		vtick.N, vtick.Limit, vtick.Exhausted = saveN, saveL, false
	}()
	vtick.Reset(budget)
	f()
	if vtick.Exhausted {
		hung = true
	}
	return
}

// panicSite extracts the first plush frame (file:line) below the panic.
func panicSite(stack string) string {
	lines := strings.Split(stack, "\n")
	seenPanic := false
	for i, l := range lines {
		if strings.HasPrefix(l, "panic(") {
			seenPanic = true
			continue
		}
		if !seenPanic {
			continue
		}
		l = strings.TrimSpace(l)
		if strings.Contains(l, ".go:") && !strings.Contains(l, "/runtime/") && !strings.Contains(l, "/reflect/") {
			fn := ""
			if i > 0 {
				fn = strings.TrimSpace(lines[i-1])
				if j := strings.LastIndex(fn, "("); j > 0 {
					fn = fn[:j]
				}
				if j := strings.LastIndex(fn, "/"); j >= 0 {
					fn = fn[j+1:]
				}
			}
			if j := strings.Index(l, " +0x"); j > 0 {
				l = l[:j]
			}
			if j := strings.LastIndex(l, "/"); j >= 0 {
				l = l[j+1:]
			}
			return fn + " " + l
		}
	}
	return "?"
}

// RunWorker executes one shard and prints its Summary as a JSON line on stdout.
func RunWorker(p *Prop, thorough bool, shard string, seed, from int64, careful bool, only string, verbose bool) (*Summary, bool) {
	t := &T{Prop: p, Thorough: thorough, Shard: shard, Seed: seed, from: from, only: only, verbose: verbose,
		seen: map[uint64]struct{}{}, budget: p.Budget, maxViol: 50}
	if t.budget == 0 {
		t.budget = 300000
	}
	t.sum.Shard = shard
	t.sum.Classes = map[string]int64{}
	if careful {
		t.careful = bufio.NewWriter(os.Stderr)
	}
	p.Run(t, shard)
	return &t.sum, t.replayHit
}
