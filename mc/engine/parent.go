package engine

import (
	"bufio"
	"bytes"
	"encoding/json"
	"fmt"
	"io"
	"math/rand"
	"os"
	"os/exec"
	"path/filepath"
	"runtime"
	"sort"
	"strconv"
	"strings"
	"sync"
	"time"
)

type finding struct {
	prop, key, pattern, text string
}

func verifDir() string {
	if d := os.Getenv("VERIF_DIR"); d != "" {
		return d
	}
	return "/verif"
}

func loadFindings() []finding {
	var out []finding
	b, err := os.ReadFile(filepath.Join(verifDir(), "known_findings.txt"))
	if err != nil {
		return nil
	}
	for _, l := range strings.Split(string(b), "\n") {
		l = strings.TrimSpace(l)
		if !strings.HasPrefix(l, "finding:") {
			continue // "fixed:" lines and comments suppress nothing
		}
		f := finding{text: strings.TrimSpace(strings.TrimPrefix(l, "finding:"))}
		for _, w := range strings.Fields(f.text) {
			switch {
			case strings.HasPrefix(w, "property="):
				f.prop = strings.TrimPrefix(w, "property=")
			case strings.HasPrefix(w, "key="):
				f.key = strings.TrimPrefix(w, "key=")
			case strings.HasPrefix(w, "pattern="):
				f.pattern = strings.TrimPrefix(w, "pattern=")
			}
		}
		if f.prop != "" && (f.key != "" || f.pattern != "") {
			out = append(out, f)
		}
	}
	return out
}

type shardResult struct {
	sum     *Summary
	crashes []Violation
	note    string
}

// RunParent explores all shards of a property and returns the exit code.
func RunParent(p *Prop, thorough bool, seed int64) int {
	start := time.Now()
	self, err := os.Executable()
	if err != nil {
		fmt.Fprintln(os.Stderr, "cannot find own executable:", err)
		return 2
	}
	shards := p.Shards(thorough)
	if seed != 0 {
		r := rand.New(rand.NewSource(seed))
		r.Shuffle(len(shards), func(i, j int) { shards[i], shards[j] = shards[j], shards[i] })
	}
	deadline := 900 * time.Second
	if thorough {
		deadline = 6 * time.Hour
	}
	if s := os.Getenv("VERIF_DEADLINE_S"); s != "" {
		if n, e := strconv.Atoi(s); e == nil {
			deadline = time.Duration(n) * time.Second
		}
	}
	workers := runtime.NumCPU()
	if s := os.Getenv("VERIF_WORKERS"); s != "" {
		if n, e := strconv.Atoi(s); e == nil && n > 0 {
			workers = n
		}
	}
	if workers > len(shards) {
		workers = len(shards)
	}

	os.RemoveAll(filepath.Join(verifDir(), "replays", p.ID))
	var mu sync.Mutex
	results := map[string]*shardResult{}
	skipped := 0
	ch := make(chan string)
	var wg sync.WaitGroup
	for w := 0; w < workers; w++ {
		wg.Add(1)
		go func() {
			defer wg.Done()
			for sh := range ch {
				r := runShard(self, p, thorough, sh, seed)
				mu.Lock()
				results[sh] = r
				mu.Unlock()
			}
		}()
	}
	for _, sh := range shards {
		if time.Since(start) > deadline {
			skipped++
			continue
		}
		ch <- sh
	}
	close(ch)
	wg.Wait()

	// aggregate
	total := Summary{Classes: map[string]int64{}, Extra: map[string]int64{}}
	var viols []Violation
	incomplete := skipped > 0
	var notes []string
	names := make([]string, 0, len(results))
	for k := range results {
		names = append(names, k)
	}
	sort.Strings(names)
	for _, k := range names {
		r := results[k]
		if r.note != "" {
			notes = append(notes, k+": "+r.note)
		}
		viols = append(viols, r.crashes...)
		total.NViolations += int64(len(r.crashes))
		s := r.sum
		if s == nil {
			incomplete = true
			continue
		}
		if s.Incomplete {
			incomplete = true
		}
		total.Evaluations += s.Evaluations
		total.States += s.States
		total.Transitions += s.Transitions
		total.Traces += s.Traces
		total.NonTrivial += s.NonTrivial
		total.NViolations += s.NViolations
		if s.MaxTicks > total.MaxTicks {
			total.MaxTicks = s.MaxTicks
		}
		for c, n := range s.Classes {
			total.Classes[c] += n
		}
		for c, n := range s.Extra {
			total.Extra[c] += n
		}
		if len(total.Samples) < 10 {
			for i, sm := range s.Samples {
				if i < 2 || len(names) < 4 {
					total.Samples = append(total.Samples, sm)
				}
			}
		}
		viols = append(viols, s.Violations...)
	}

	// classify violations
	findings := loadFindings()
	knownHit := map[string]int{}
	var fresh []Violation
	flaky := 0
	for _, v := range viols {
		if v.Flaky {
			flaky++
			fmt.Printf("HARNESS-NONDETERMINISM property=%s key=%s reproduced=%d/5 %s :: %s\n", v.Property, v.Key, v.Reproduced, oneLine(v.Desc), oneLine(v.Msg))
			continue
		}
		matched := false
		for _, f := range findings {
			if f.prop == p.ID && ((f.key != "" && f.key == v.Key) || (f.pattern != "" && f.pattern == v.Pattern)) {
				knownHit[f.text]++
				matched = true
				break
			}
		}
		if !matched {
			fresh = append(fresh, v)
		}
	}
	for _, f := range findings {
		if f.prop == p.ID && knownHit[f.text] > 0 {
			fmt.Printf("KNOWN-FINDING: %s (cases hit: %d)\n", f.text, knownHit[f.text])
		}
	}
	rdir := filepath.Join(verifDir(), "replays", p.ID)
	printed := 0
	for _, v := range fresh {
		os.MkdirAll(rdir, 0o755)
		path := filepath.Join(rdir, v.Key+".json")
		b, _ := json.MarshalIndent(v, "", " ")
		os.WriteFile(path, b, 0o644)
		if printed < 40 {
			fmt.Printf("VIOLATION property=%s replay=%s\n", p.ID, path)
			fmt.Printf("  case: %s\n  %s: %s\n", oneLine(v.Desc), v.Kind, oneLine(v.Msg))
			printed++
		}
	}
	unreported := total.NViolations - int64(len(viols))
	if unreported > 0 {
		fmt.Printf("(+%d further violating cases not individually recorded; per-shard cap)\n", unreported)
	}

	// evidence
	wall := time.Since(start).Seconds()
	samples := make([]interface{}, 0, len(total.Samples))
	for _, s := range total.Samples {
		samples = append(samples, s)
	}
	if len(samples) == 0 {
		samples = append(samples, "(no case executed)")
	}
	cov := map[string]interface{}{
		"states":                        total.States,
		"transitions":                   total.Transitions,
		"traces_validated_against_impl": total.Traces,
		"samples":                       samples,
		"evaluations":                   total.Evaluations,
		"distinct_nontrivial":           total.NonTrivial,
		"rule":                          p.Rule,
		"exhaustive":                    !incomplete,
		"bound_completed":               p.Bound(thorough),
		"outcome_classes":               total.Classes,
		"distinct_outcome_classes":      len(total.Classes),
		"shards":                        len(shards),
		"shards_skipped_by_deadline":    skipped,
		"workers":                       workers,
		"max_ticks_in_one_case":         total.MaxTicks,
		"known_findings_hit":            len(knownHit),
		"counters":                      total.Extra,
		"notes":                         notes,
	}
	ev := map[string]interface{}{
		"property_id": p.ID,
		"tier":        tierName(thorough),
		"seed":        seed,
		"level":       "model_checking",
		"coverage":    cov,
		"assumptions": append([]string{
			"every state is reached by executing the real implementation (built from the current /repo working tree with the tick overlay); traces_validated_against_impl counts cases whose expected result came from the reference model and were executed on the implementation",
			"nothing is claimed beyond the stated bound",
		}, p.Assumptions...),
		"wall_s":     wall,
		"violations": len(fresh),
	}
	os.MkdirAll(filepath.Join(verifDir(), "evidence"), 0o755)
	b, _ := json.MarshalIndent(ev, "", " ")
	if err := os.WriteFile(filepath.Join(verifDir(), "evidence", p.ID+".json"), b, 0o644); err != nil {
		fmt.Fprintln(os.Stderr, "cannot write evidence:", err)
		return 2
	}
	fmt.Printf("%s %s: evaluations=%d states=%d transitions=%d nontrivial=%d classes=%d violations=%d known=%d exhaustive=%v wall=%.1fs\n",
		p.ID, tierName(thorough), total.Evaluations, total.States, total.Transitions, total.NonTrivial, len(total.Classes), len(fresh), len(knownHit), !incomplete, wall)
	for _, n := range notes {
		fmt.Println("note:", n)
	}
	if flaky > 0 && len(fresh) == 0 {
		return 2
	}
	for _, n := range notes {
		if strings.Contains(n, "died before the first case") || strings.Contains(n, "exited between cases") {
			if len(fresh) == 0 {
				fmt.Println("HARNESS-ERROR: a worker died outside any case (bug in the check itself, not a property violation)")
				return 2
			}
		}
	}
	if len(fresh) > 0 {
		return 1
	}
	return 0
}

func oneLine(s string) string {
	s = strings.ReplaceAll(s, "\n", "\\n")
	if len(s) > 400 {
		s = s[:400] + "…"
	}
	return s
}

func runShard(self string, p *Prop, thorough bool, shard string, seed int64) *shardResult {
	res := &shardResult{}
	// fast path
	cmd := exec.Command(self, "--worker", p.ID, tierName(thorough), shard, "--seed", fmt.Sprint(seed))
	var out, errb bytes.Buffer
	cmd.Stdout = &out
	cmd.Stderr = &errb
	err := cmd.Run()
	if err == nil {
		if s := parseSummary(out.Bytes()); s != nil {
			res.sum = s
			return res
		}
	}
	res.note = fmt.Sprintf("worker failed (%v): %s; re-running in careful mode", err, oneLine(tail(errb.String(), 300)))
	// careful path: find the crashing case(s)
	from := int64(0)
	agg := &Summary{Shard: shard, Classes: map[string]int64{}}
	for attempt := 0; attempt < 25; attempt++ {
		s, lastIdx, lastKey, lastDesc, stderrTail, done := runCareful(self, p, thorough, shard, seed, from)
		if s != nil {
			mergeInto(agg, s)
		}
		if done {
			res.sum = agg
			return res
		}
		if lastIdx < 0 {
			res.note += "; careful run died before the first case: " + oneLine(stderrTail)
			agg.Incomplete = true
			res.sum = agg
			return res
		}
		agg.Evaluations += lastIdx - from + 1
		agg.States += lastIdx - from + 1
		agg.Transitions += lastIdx - from + 1
		res.crashes = append(res.crashes, Violation{Property: p.ID, Tier: tierName(thorough), Shard: shard, Index: lastIdx, Key: lastKey, Desc: lastDesc,
			Fail: Fail{Kind: "crash", Msg: "worker process died or stalled while executing this case: " + tail(stderrTail, 600)}, Reproduced: 5})
		from = lastIdx + 1
	}
	agg.Incomplete = true
	res.sum = agg
	res.note += "; more than 25 crashing cases in this shard, rest not explored"
	return res
}

func mergeInto(a, s *Summary) {
	a.Evaluations += s.Evaluations
	a.States += s.States
	a.Transitions += s.Transitions
	a.Traces += s.Traces
	a.NonTrivial += s.NonTrivial
	a.NViolations += s.NViolations
	a.Violations = append(a.Violations, s.Violations...)
	a.Samples = append(a.Samples, s.Samples...)
	for c, n := range s.Classes {
		a.Classes[c] += n
	}
	if s.MaxTicks > a.MaxTicks {
		a.MaxTicks = s.MaxTicks
	}
	if s.Extra != nil {
		if a.Extra == nil {
			a.Extra = map[string]int64{}
		}
		for c, n := range s.Extra {
			a.Extra[c] += n
		}
	}
}

func runCareful(self string, p *Prop, thorough bool, shard string, seed, from int64) (sum *Summary, lastIdx int64, lastKey, lastDesc, stderrTail string, done bool) {
	cmd := exec.Command(self, "--worker", p.ID, tierName(thorough), shard, "--seed", fmt.Sprint(seed), "--careful", "--from", fmt.Sprint(from))
	var out bytes.Buffer
	cmd.Stdout = &out
	pr, pw := io.Pipe()
	cmd.Stderr = pw
	lastIdx = -1
	open := false
	var tailBuf []string
	lastAct := time.Now()
	var mu sync.Mutex
	rdDone := make(chan struct{})
	go func() {
		defer close(rdDone)
		sc := bufio.NewScanner(pr)
		sc.Buffer(make([]byte, 1<<20), 1<<26)
		for sc.Scan() {
			l := sc.Text()
			mu.Lock()
			lastAct = time.Now()
			if strings.HasPrefix(l, "BEGIN ") {
				parts := strings.SplitN(l, " ", 4)
				if len(parts) == 4 {
					lastIdx, _ = strconv.ParseInt(parts[1], 10, 64)
					lastKey = parts[2]
					json.Unmarshal([]byte(parts[3]), &lastDesc)
					open = true
				}
			} else if strings.HasPrefix(l, "END ") {
				open = false
			} else {
				tailBuf = append(tailBuf, l)
				if len(tailBuf) > 12 {
					tailBuf = tailBuf[len(tailBuf)-12:]
				}
			}
			mu.Unlock()
		}
	}()
	if err := cmd.Start(); err != nil {
		pw.Close()
		return nil, -1, "", "", err.Error(), false
	}
	waitCh := make(chan error, 1)
	go func() { waitCh <- cmd.Wait() }()
	var werr error
	stalled := false
loop:
	for {
		select {
		case werr = <-waitCh:
			break loop
		case <-time.After(2 * time.Second):
			mu.Lock()
			idle := time.Since(lastAct)
			mu.Unlock()
			if idle > 180*time.Second {
				stalled = true
				cmd.Process.Kill()
			}
		}
	}
	pw.Close()
	<-rdDone
	stderrTail = strings.Join(tailBuf, " | ")
	if stalled {
		stderrTail = "no progress for 180 s in un-instrumented code (killed) | " + stderrTail
	}
	if werr == nil && !open {
		if s := parseSummary(out.Bytes()); s != nil {
			return s, lastIdx, "", "", "", true
		}
	}
	if !open {
		// died between cases: attribute to nothing, but do not loop forever
		return nil, -1, "", "", "worker exited between cases: " + stderrTail, false
	}
	return nil, lastIdx, lastKey, lastDesc, stderrTail, false
}

func parseSummary(out []byte) *Summary {
	lines := bytes.Split(bytes.TrimSpace(out), []byte("\n"))
	for i := len(lines) - 1; i >= 0; i-- {
		l := bytes.TrimSpace(lines[i])
		if bytes.HasPrefix(l, []byte("SUMMARY ")) {
			var s Summary
			if json.Unmarshal(l[len("SUMMARY "):], &s) == nil {
				return &s
			}
		}
	}
	return nil
}

func tail(s string, n int) string {
	if len(s) > n {
		return "…" + s[len(s)-n:]
	}
	return s
}
