package props

import (
	"fmt"
	"strings"
	"sync"

	"verifmc/engine"

	plush "github.com/gobuffalo/plush/v5"
	"github.com/gobuffalo/plush/v5/parser"
	"github.com/gobuffalo/plush/v5/vtick"
)

// C03 — parsing is total.

var c03Vocab = []string{
	// identifiers and keywords
	"a", "b.c", "a-b", "let", "fn", "if", "else", "for", "in", "return", "true", "false", "nil", "break", "continue",
	// literals, good and bad
	"1", "2.5", "1.2.3", "99999999999999999999", `"s"`, "`t`", `"un`, "`un",
	// operators and punctuation (every token.Type) and illegal bytes
	"=", "==", "!=", "+", "-", "*", "/", "<", "<=", ">", ">=", "~=", "~", "&&", "||", "!", "&", "|", ".", ",", ";", ":",
	"(", ")", "{", "}", "[", "]", "%", "@", "#c\n",
	// tag delimiters
	"<%", "<%=", "<%#", "%>",
}

var c03Framings = []struct{ name, pre, post string }{
	{"stmt", "<% ", " %>"},
	{"expr", "<%= ", " %>"},
	{"comment", "<%# ", " %>"},
	{"stmt-unclosed", "<% ", ""},
	{"expr-unclosed", "<%= ", ""},
	{"comment-unclosed", "<%# ", ""},
	{"stmt-reopen", "<% ", " <%"},
	{"text-around", "x<% ", " %>y"},
	{"in-if", "<% if (true) { %><% ", " %><% } %>"},
	{"in-for", "<%= for (v) in xs { %><% ", " %><% } %>"},
	{"in-fn", "<% let f = fn(x) { %><% ", " %><% } %>"},
	{"in-helper", "<%= h() { %><%= ", " %><% } %>"},
}

var c03Nest = []struct{ name, open, mid, close string }{
	{"paren", "(", "1", ")"},
	{"bracket", "[", "1", "]"},
	{"brace", "{", "", "}"},
	{"hash", `{"a": `, "1", "}"},
	{"bang", "!", "true", ""},
	{"minus", "-", "1", ""},
	{"index", "a[", "0", "]"},
	{"call", "f(", "1", ")"},
	{"if", "if (a) { ", "1", " }"},
	{"ifelse", "if (a) { 1 } else { ", "2", " }"},
	{"fn", "fn() { ", "1", " }"},
	{"for", "for (x) in a { ", "1", " }"},
	{"helperblock", "h() { ", "1", " }"},
	{"tagopen", "<% ", "1", " %>"},
	{"infix", "1 + ", "1", ""},
	{"dotchain", "a.", "b", ""},
	{"chain", "f().", "g()", ""},
	{"idxchain", "a[0].", "b", ""},
}

func c03Parse(src string) (string, *engine.Fail) {
	t, err := plush.Parse(src)
	if err != nil {
		if err.Error() == "" {
			return "", engine.Failf("mismatch", "Parse returned an error with an empty message")
		}
		return "error", nil
	}
	if t == nil {
		return "", engine.Failf("mismatch", "Parse returned (nil, nil)")
	}
	prog := t.VerifProgram()
	if prog == nil {
		return "", engine.Failf("mismatch", "Parse returned a template without a program and no error")
	}
	_ = prog.String() // printers must tolerate whatever the parser accepted
	return "ok", nil
}

// c03ParseCached: with the template cache enabled, a second Parse / Render of the same text gives
// the same verdict as the first (a text that failed to parse is not served as a template later).
func c03ParseCached(src string) (string, *engine.Fail) {
	plush.VerifCacheReset()
	plush.CacheEnabled = true
	defer func() { plush.CacheEnabled = false; plush.VerifCacheReset() }()
	c1, f := c03Parse(src)
	if f != nil {
		return "", f
	}
	for i := 2; i <= 3; i++ {
		c2, f := c03Parse(src)
		if f != nil {
			return "", f
		}
		if c2 != c1 {
			return "", engine.Failf("mismatch", "cache enabled: Parse call %d of the same text returned %q, the first returned %q", i, c2, c1)
		}
	}
	_, e1 := plush.Render(src, plush.NewContext())
	_, e2 := plush.Render(src, plush.NewContext())
	if c1 == "error" && (e1 == nil || e2 == nil) {
		return "", engine.Failf("mismatch", "cache enabled: the text does not parse but Render succeeded (errors: %v / %v)", e1, e2)
	}
	if (e1 == nil) != (e2 == nil) {
		return "", engine.Failf("mismatch", "cache enabled: Render of the same text failed once and succeeded once (%v / %v)", e1, e2)
	}
	return "cached-" + c1, nil
}

// c03ParserDirect exercises parser.Parse (what Template.Parse calls).
func c03ParserDirect(src string) (string, *engine.Fail) {
	prog, err := parser.Parse(src)
	if err != nil {
		return "error", nil
	}
	if prog == nil {
		return "", engine.Failf("mismatch", "parser.Parse returned (nil, nil)")
	}
	return "ok", nil
}

func c03Edits() []string {
	return []string{"<", "%", ">", "=", "#", `"`, "`", "\\", "{", "}", "(", ")", "[", "\n", " ", ".", "a", "\x00", "\xff"}
}

func init() {
	engine.Register(&engine.Prop{
		ID: "C03",
		Shards: func(th bool) []string {
			var s []string
			s = append(s, "seq:-", "flat", "concurrent")
			for i := range c03Vocab {
				s = append(s, fmt.Sprintf("seq:%d", i))
			}
			for i := range c03Nest {
				s = append(s, fmt.Sprintf("nest:%d", i))
			}
			for i := range Corpus {
				s = append(s, fmt.Sprintf("edit:%d", i))
			}
			for i := range c03Postfix {
				s = append(s, fmt.Sprintf("postfix:%d", i))
			}
			if th {
				for i := range Corpus {
					if len(Corpus[i]) <= 40 {
						s = append(s, fmt.Sprintf("edit2:%d", i))
					}
				}
			}
			return s
		},
		Run:  c03Run,
		Rule: "token sequences over a 60-spelling vocabulary (every token.Type, malformed numbers, unterminated strings, illegal bytes, tag delimiters) of length <=k in 12 framings (closed/unclosed/reopened tags, inside if/for/fn/helper blocks); 18 nesting families open and closed for every depth 1..256; every truncation and single-byte edit (delete, insert, replace by 19 bytes) of a 35-template corpus, pairs of edits in the thorough tier; grammar-aware postfix chains (11 heads x every sequence of <=4/5 postfix operators from 17: index/member/call/chained call/string-or-array after dot/assignment/unbalanced brackets) in 5 framings. Oracle: Parse returns (template with program, nil) or (_, non-empty error); no panic, step budget not exhausted, AST printers do not panic on accepted programs. Non-trivial: at least one token/edit. With the template cache enabled (sequences of <=2 tokens, all corpus truncations and single edits): Parse three times and Render twice of the same text give the same verdict every time - a text that does not parse is never served as a template.",
		Bound: func(th bool) string {
			if th {
				return "k=4 token sequences x 12 framings; nesting 1..256; edit distance <=2 on corpus templates of <=40 bytes, <=1 on the rest"
			}
			return "k=3 token sequences x 12 framings; nesting 1..256; edit distance <=1 on the corpus"
		},
		Budget: 2000000,
	})
}

// c03Postfix: grammar-aware postfix chains (index, member, call, chained call, assignment)
var c03Postfix = []string{"[0]", `["k"]`, "[i]", ".b", "()", "(1)", ".b()", ".b(1)", ".b[0]", `. "x"`, ".[1, 2]", " = 1", "[", "(", ".", "]", ")"}

var c03Heads = []string{"a", "a.b", "f()", "[1, 2]", `{"k": 1}`, `"s"`, "1", "(a)", "fn(x) { return x }", "break", "nil"}

func c03Run(t *engine.T, shard string) {
	kind, arg, _ := strings.Cut(shard, ":")
	switch kind {
	case "flat":
		// long inputs without nesting: the work (and the stack) Parse needs must not grow with the NUMBER of items
		// in a way that ends the process - millions of comment lines, tags, elements, bytes
		rep := strings.Repeat
		for _, c := range []struct{ name, src string }{
			{"5M empty comment lines in one tag", "<% " + rep("#\n", 5000000) + " %>"},
			{"3M comment lines with text, CRLF", "<% let a = 1 " + rep("# c\r\n", 3000000) + " %><%= a %>"},
			{"2M comment lines in an output tag", "<%= 1 " + rep("#x\n", 2000000) + " + 2 %>"},
			{"1M comment lines ending at end of input", "<% " + rep("#\n", 1000000)},
			{"300k empty tags", rep("<% %>", 300000)}, {"100k comment tags", rep("<%# c %>", 100000)}, {"10M bytes of text", rep("a", 10000000)}, {"5M byte string literal", `<%= "` + rep("a", 5000000) + `" %>`},
			{"1M byte identifier", `<%= ` + rep("a", 1000000) + ` %>`}, {"100k digit number", `<%= ` + rep("1", 100000) + ` %>`}, {"300k array elements", `<%= [` + rep("1,", 300000) + `1] %>`},
			{"100k arguments", `<%= f(` + rep("1,", 100000) + `1) %>`}, {"100k hash pairs", `<%= {` + rep(`"a": 1,`, 100000) + `"b": 2} %>`}, {"100k let statements in one tag", `<% ` + rep("let a = 1\n", 100000) + ` %>`},
			{"300k semicolons", `<% ` + rep(";", 300000) + ` %>`}, {"50k else-if branches", `<%= if (false) { %>a<% }` + rep(` else if (false) { %>b<% }`, 50000) + ` %>`}, {"1M escaped openers", rep(`\<%`, 1000000)},
			{"1M newlines in a tag", "<% " + rep("\n", 1000000) + " %>"}, {"1M blanks in a tag", "<%=" + rep(" ", 1000000) + "1 %>"}, {"200k unterminated openers", rep("<%", 200000)}, {"200k closers", rep("%>", 200000)},
		} {
			c := c
			t.Case("flat "+c.name, true, func() (string, *engine.Fail) {
				vtick.Reset(1 << 40)
				tm, err := plush.Parse(c.src)
				if err == nil && tm == nil {
					return "", engine.Failf("mismatch", "Parse returned (nil, nil)")
				}
				if err != nil {
					return "error", nil
				}
				return "ok", nil
			})
		}
	case "concurrent":
		// Parse is also total when several goroutines parse at the same time with the template cache on (free-running,
		// a fixed amount of work: a crash of the process is the failure)
		t.Case("concurrent Parse of distinct templates, cache on", true, func() (string, *engine.Fail) {
			vtick.Reset(vtick.Off)
			plush.VerifCacheReset()
			plush.CacheEnabled = true
			defer func() { plush.CacheEnabled = false; plush.VerifCacheReset() }()
			var wg sync.WaitGroup
			bad := make([]string, 16)
			for g := 0; g < 16; g++ {
				g := g
				wg.Add(1)
				go func() {
					defer wg.Done()
					for i := 0; i < 4000; i++ {
						// a text that is cached already, then one nobody has parsed before
						if tm, err := plush.Parse(`<html><%= yield %></html>`); tm == nil || err != nil {
							bad[g] = fmt.Sprintf("Parse of a cached text returned %v / %v", tm != nil, err)
						}
						src := fmt.Sprintf("<%%= %d + %d %%>t%d", g, i, i%7)
						if i%5 == 0 {
							src = fmt.Sprintf("<%% let = %d %%>g%d", i, g) // does not parse
						}
						tm, err := plush.Parse(src)
						if (err == nil) == (i%5 == 0) || (err == nil && tm == nil) {
							bad[g] = fmt.Sprintf("Parse(%q) returned %v / %v", src, tm != nil, err)
						}
					}
				}()
			}
			wg.Wait()
			for _, b := range bad {
				if b != "" {
					return "", engine.Failf("mismatch", "%s", b)
				}
			}
			return "ok", nil
		})
	case "postfix":
		var first int
		fmt.Sscan(arg, &first)
		k := 4
		if t.Thorough {
			k = 5
		}
		var rec func(chain string, n int)
		rec = func(chain string, n int) {
			for _, h := range c03Heads {
				for _, fr := range []struct{ pre, post string }{{"<%= ", " %>"}, {"<% ", " %>"}, {"<%= if (", ") { %>x<% } %>"}, {"<%= for (v) in ", " { %>x<% } %>"}, {"<% let z = ", " %>"}} {
					src := fr.pre + h + chain + fr.post
					t.Case("postfix "+fmt.Sprintf("%q", src), true, func() (string, *engine.Fail) { return c03Parse(src) })
				}
			}
			if n == k {
				return
			}
			for _, px := range c03Postfix {
				rec(chain+px, n+1)
			}
		}
		rec(c03Postfix[first], 1)
	case "seq":
		k := 3
		if t.Thorough {
			k = 4
		}
		if arg == "-" {
			c03Seq(t, nil)
			return
		}
		var first int
		fmt.Sscan(arg, &first)
		var rec func(seq []string)
		rec = func(seq []string) {
			c03Seq(t, seq)
			if len(seq) == k {
				return
			}
			for _, v := range c03Vocab {
				rec(append(seq[:len(seq):len(seq)], v))
			}
		}
		rec([]string{c03Vocab[first]})
	case "nest":
		var i int
		fmt.Sscan(arg, &i)
		nf := c03Nest[i]
		for n := 1; n <= 256; n++ {
			open := strings.Repeat(nf.open, n)
			closed := open + nf.mid + strings.Repeat(nf.close, n)
			for _, fr := range []struct{ pre, post string }{{"<%= ", " %>"}, {"<% ", " %>"}, {"<%= ", ""}} {
				for vi, body := range []string{open, closed, open + nf.mid} {
					src := fr.pre + body + fr.post
					t.Case(fmt.Sprintf("nest %s n=%d variant=%d frame=%q", nf.name, n, vi, fr.pre+"…"+fr.post), true, func() (string, *engine.Fail) {
						return c03Parse(src)
					})
				}
			}
		}
	case "edit", "edit2":
		var i int
		fmt.Sscan(arg, &i)
		base := Corpus[i]
		if kind == "edit" {
			t.Case(fmt.Sprintf("corpus %d unedited %q", i, base), false, func() (string, *engine.Fail) {
				c, f := c03Parse(base)
				if f == nil && c != "ok" {
					return "", engine.Failf("harness", "corpus template does not parse")
				}
				return c, f
			})
			for n := 0; n < len(base); n++ {
				src := base[:n]
				t.Case(fmt.Sprintf("corpus %d truncated at %d %q", i, n, src), true, func() (string, *engine.Fail) { return c03Parse(src) })
				t.Case(fmt.Sprintf("corpus %d truncated at %d, cache enabled %q", i, n, src), true, func() (string, *engine.Fail) { return c03ParseCached(src) })
			}
			for _, e := range c03Edit1(base) {
				src := e
				t.Case(fmt.Sprintf("corpus %d edit1 %q", i, src), true, func() (string, *engine.Fail) { return c03Parse(src) })
				t.Case(fmt.Sprintf("corpus %d edit1, cache enabled %q", i, src), true, func() (string, *engine.Fail) { return c03ParseCached(src) })
			}
			return
		}
		for _, e1 := range c03Edit1(base) {
			for _, e2 := range c03Edit1Small(e1) {
				src := e2
				t.Case(fmt.Sprintf("corpus %d edit2 %q", i, src), true, func() (string, *engine.Fail) { return c03Parse(src) })
			}
		}
	}
}

func c03Edit1(base string) []string {
	var out []string
	for p := 0; p <= len(base); p++ {
		if p < len(base) {
			out = append(out, base[:p]+base[p+1:])
		}
		for _, b := range c03Edits() {
			out = append(out, base[:p]+b+base[p:])
			if p < len(base) && string(base[p]) != b {
				out = append(out, base[:p]+b+base[p+1:])
			}
		}
	}
	return out
}

// c03Edit1Small: second edit restricted to deletes and the 8 structural bytes.
func c03Edit1Small(base string) []string {
	var out []string
	small := []string{"<", "%", ">", `"`, "{", "}", "(", "\\"}
	for p := 0; p <= len(base); p++ {
		if p < len(base) {
			out = append(out, base[:p]+base[p+1:])
		}
		for _, b := range small {
			out = append(out, base[:p]+b+base[p:])
		}
	}
	return out
}

func c03Seq(t *engine.T, seq []string) {
	body := strings.Join(seq, " ")
	for _, fr := range c03Framings {
		src := fr.pre + body + fr.post
		t.Case("seq "+fr.name+" "+fmt.Sprintf("%q", src), len(seq) > 0, func() (string, *engine.Fail) {
			return c03Parse(src)
		})
		if len(seq) <= 2 {
			t.Case("seq "+fr.name+", cache enabled "+fmt.Sprintf("%q", src), len(seq) > 0, func() (string, *engine.Fail) {
				return c03ParseCached(src)
			})
		}
	}
	if len(seq) > 0 {
		// also as bare text outside any tag (the HTML scanner sees it)
		t.Case("seq bare "+fmt.Sprintf("%q", body), true, func() (string, *engine.Fail) { return c03Parse(body) })
	}
}
