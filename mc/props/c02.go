package props

import (
	"fmt"
	"github.com/gobuffalo/plush/v5/vtick"
	"html/template"
	"strings"
	"testing/iotest"

	"verifmc/engine"

	plush "github.com/gobuffalo/plush/v5"
)

// C02 — output = literal text verbatim + values of <%= %> tags, in source order.

// c02Tag is a generated tag with known extent and value.
type c02Tag struct {
	src, val string
}

var c02Tags = []c02Tag{
	{`<%= "v" %>`, "v"},
	{`<%= x %>`, "X&amp;"},
	{`<% let y = 1 %>`, ""},
	{`<%# c %>`, ""},
}

func c02Context() *plush.Context {
	c := plush.NewContext()
	c.Set("x", "X&")
	c.Set("q0", 0)
	c.Set("one", []int{7})
	c.Set("str", func() string { return "S!" })
	c.Set("html", func() template.HTML { return "<H>" })
	c.Set("id", func(s string) string { return s })
	c.Set("blk", func(help plush.HelperContext) (template.HTML, error) {
		s, err := help.Block()
		return template.HTML("{" + s + "}"), err
	})
	return c
}

// c02Ref is the reference scanner: a direct reading of the statement, left to
// right over the whole template. tags maps byte offsets of generated live tags
// to their description. ok=false: the template contains a live "<%" that is
// not a generated tag (outside the grammar; only totality applies).
func c02Ref(src string, tags map[int]c02Tag) (out string, ok bool) {
	var sb strings.Builder
	i := 0
	for i < len(src) {
		rest := src[i:]
		switch {
		case strings.HasPrefix(rest, `\\<%`):
			sb.WriteByte('\\')
			i += 2 // a live tag starts here
			t, isTag := tags[i]
			if !isTag {
				return "", false
			}
			sb.WriteString(t.val)
			i += len(t.src)
		case strings.HasPrefix(rest, `\<%`):
			sb.WriteString("<%")
			i += 3
		case strings.HasPrefix(rest, `<%`):
			t, isTag := tags[i]
			if !isTag {
				return "", false
			}
			sb.WriteString(t.val)
			i += len(t.src)
		default:
			sb.WriteByte(src[i])
			i++
		}
	}
	return sb.String(), true
}

var c02Sigma = []string{"<", "%", ">", "\\", "=", "#", "a", `"`, "{", "\n", "é"}

func c02Strings(maxLen int, alphabet []string, f func(s string)) {
	var rec func(s string, n int)
	rec = func(s string, n int) {
		f(s)
		if n == maxLen {
			return
		}
		for _, a := range alphabet {
			rec(s+a, n+1)
		}
	}
	rec("", 0)
}

func c02Check(t *engine.T, desc, src string, tags map[int]c02Tag, nontrivial bool) {
	t.Case(desc+" "+q(src), nontrivial, func() (string, *engine.Fail) {
		want, ok := c02Ref(src, tags)
		out, err := Render(src, c02Context())
		if f := Totality(out, err); f != nil {
			return "", f
		}
		if !ok {
			return "outside-grammar", nil
		}
		if err != nil {
			return "", engine.Failf("mismatch", "expected output %q, got error %v", want, err)
		}
		if out != want {
			return "", engine.Failf("mismatch", "expected output %q, got %q", want, out)
		}
		return "match", nil
	})
}

// string literal denotation (double-quoted): ok=false if the body does not end
// exactly at its own closing quote.
func c02Denote(body string) (string, bool) {
	var sb strings.Builder
	i := 0
	for i < len(body) {
		if body[i] == '\\' && i+1 < len(body) && body[i+1] == '"' {
			sb.WriteByte('"')
			i += 2
			continue
		}
		if body[i] == '"' {
			return "", false // closes early
		}
		sb.WriteByte(body[i])
		i++
	}
	if strings.HasSuffix(body, `\`) {
		return "", false // would escape the closing quote
	}
	return sb.String(), true
}

var c02StrSigma = []string{"a", `\`, `"`, "%", ">", "<", "#", "\n", "é", "}", " ", "`"}

type c02Item struct {
	src, val string
	silent   bool
}

var c02Items = []c02Item{
	{"t", "t", false},
	{`<%= "v" %>`, "v", false},
	{`<% 1 %>`, "", true},
	{`<% "s" %>`, "", true},
	{`<% [1, 2] %>`, "", true},
	{`<% {"a": 1} %>`, "", true},
	{`<% str() %>`, "", true},
	{`<% html() %>`, "", true},
	{`<% raw("R") %>`, "", true},
	{`<% x %>`, "", true},
	{`<% let q = 1 %>`, "", true},
	{`<% q0 = 2 %>`, "", true},
	{`<% if (true) { %>IF<% } %>`, "", true},
	{`<% if (false) { %>IF<% } else { %>EL<% } %>`, "", true},
	{`<% for (w) in one { %>F<% } %>`, "", true},
	{`<%# c %>`, "", true},
	{"<% # lc\n %>", "", true},
	{`<% x == "X&" %>`, "", true},
	{`<% fn() { return 1 } %>`, "", true},
	// a template function whose body has literal text and an explicit return
	{`<%= ftext() %>`, "Tr", false},
	{`<% ftext() %>`, "", true},
	{`<% q0 = ftext() %>`, "", true},
	{`<% let q1 = ftext() %>`, "", true},
	{`<% q0 = 5 %>`, "", true},
	{`<% if (true) { q0 = ftext() } %>`, "", true},
	{`<% q0 = if (true) { return "R" } %>`, "", true},
	{`<% let q2 = if (true) { %>IFTEXT<% } %>`, "", true},
}

const c02Prelude = `<% let ftext = fn() { %>T<% return "r" } %>`

var c02Wraps = []struct{ name, pre, post, opre, opost string }{
	{"top", "", "", "", ""},
	{"if", `<%= if (true) { %>`, `<% } %>`, "", ""},
	{"else", `<%= if (false) { %>no<% } else { %>`, `<% } %>`, "", ""},
	{"for", `<%= for (v) in one { %>`, `<% } %>`, "", ""},
	{"fn", `<% let f = fn() { %>`, `<% } %><%= f() %>`, "", ""},
	{"helper", `<%= blk() { %>`, `<% } %>`, "{", "}"},
	{"for-if", `<%= for (v) in one { %><%= if (v == 7) { %>`, `<% } %><% } %>`, "", ""},
	{"for-iterator-break", `<%= for (v) in range(1, 3) { %>`, `<% break %>never<% } %>`, "", ""},
	{"for-slice-continue", `<%= for (v) in one { %>`, `<% continue %>never<% } %>`, "", ""},
	{"for-map-break", `<%= for (k, v) in {"a": 1, "b": 2} { %>`, `<% break %>never<% } %>`, "", ""},
	// the block of a helper called in a loop body ends with break / continue: the helper still receives the block's text
	{"for-helper-break", `<%= for (v) in range(1, 3) { %><%= blk() { %>`, `<% break %>never<% } %>never<% } %>`, "{", "}"},
	{"for-helper-continue", `<%= for (v) in one { %><%= blk() { %>`, `<% if (true) { continue } %>never<% } %>never<% } %>`, "{", "}"},
}

func init() {
	engine.Register(&engine.Prop{
		ID: "C02",
		Shards: func(th bool) []string {
			s := []string{"silent", "bytes"}
			for i := range c02Sigma {
				s = append(s, fmt.Sprintf("bare:%d", i))
				for ti := range c02Tags {
					s = append(s, fmt.Sprintf("around:%d:%d", ti, i))
				}
			}
			for i := range c02StrSigma {
				s = append(s, fmt.Sprintf("str:%d", i))
			}
			for i := range c02CommentSigma {
				s = append(s, fmt.Sprintf("comment:%d", i))
			}
			for i := range c02EscSigma {
				for j := range c02EscSigma {
					s = append(s, fmt.Sprintf("esc:%d:%d", i, j))
				}
			}
			return s
		},
		Run:  c02Run,
		Rule: "family A: every string over {< % > \\ = # a \" { \\n é} up to length L bare, and s1·TAG·s2 around each of 4 generated tags (|s1|<=3,|s2|<=2), compared with a left-to-right reference scanner that knows only the two escapes; templates whose reference scan meets a live <% that is not the generated tag are outside the grammar (totality only). Family B: <%= \"S\" %> / <%= `S` %> / let-bound / helper-argument string literals for every body S over {a \\ \" % > < # \\n é } space `} up to length L that the reference tokeniser closes at its own quote; expected = HTML-escape(denotation). Family C: every sequence of <=3 items from {text, output tag, output of a template function that has literal text and an explicit return, 24 silent constructs (expression/let/assign/if/for/comment/line-comment/fn statements incl. values that are HTML)} in 12 placements (top, if, else, for, fn body, helper block, for+if, iterator loop ending in break, slice loop ending in continue, map loop ending in break, a helper's block in a loop body ending in break / continue); expected = the same sequence with silent items deleted. Family E: every sequence of <=3 (4) pieces from {a, CRLF, CR, LF, TAB, space, NUL, 0xFF, VT+FF, é, an output tag, a silent tag, string literals containing CRLF / CR}: copied byte for byte; a byte-order mark among the pieces; text and values produced 5..130 levels deep (recursive function, nested blocks); templates differing only in surrounding white space rendered alternately with the cache on. The same text of 0 .. 3 MiB (sizes around 512, 4096, 32768, 65536 and 1 MiB) followed by a tag through every public entry point (Render, RenderR, RenderR from a one-byte reader, Template.Exec, Clone, BuffaloRenderer). Family D: comment tags whose body is any string of <=3 (4) symbols over {a \" ' # ` < % { } ( \\n space \\ = let 1.2.3} not containing the closing delimiter, spaced and tight, at top level and inside a block: the tag contributes nothing and the template continues after its %>. Non-trivial: contains an escape-relevant byte next to a boundary / a silent item.",
		Bound: func(th bool) string {
			if th {
				return "A: bare |s|<=6, around |s1|<=3 |s2|<=2, core alphabet {\\ < % a} bare |s|<=10 and before/around a tag |s|<=8; B: |S|<=5; C: sequences <=3"
			}
			return "A: bare |s|<=5, around |s1|<=3 |s2|<=1, core alphabet {\\ < % a} bare |s|<=8 and before/around a tag |s|<=6; B: |S|<=4; C: sequences <=3"
		},
	})
}

// c02EscSigma: the escape-relevant core alphabet, explored to a greater length.
var c02EscSigma = []string{"\\", "<", "%", "a"}

// c02CommentSigma: comment-tag bodies (anything but the closing delimiter is ignored).
var c02CommentSigma = []string{"a", `"`, "'", "#", "`", "<", "%", "{", "}", "(", "\n", " ", `\`, "=", "let", "1.2.3"}

func c02Run(t *engine.T, shard string) {
	parts := strings.Split(shard, ":")
	switch parts[0] {
	case "bytes":
		// family E: literal text is copied byte for byte - carriage returns, every other control byte, any encoding,
		// outside tags, between tags and inside string literals; also when templates that differ only in surrounding
		// white space are rendered one after the other with the cache on
		// every public entry point copies literal text the same way, at every size: Render, RenderR (also from a
		// reader that hands out one byte at a time), a Template value, its Clone, BuffaloRenderer
		for _, size := range []int{0, 1, 511, 512, 513, 4095, 4096, 4097, 32768, 65535, 65536, 65537, 1<<20 - 1, 1 << 20, 1<<20 + 1, 3<<20 + 7} {
			size := size
			t.Case(fmt.Sprintf("bytes entry points, %d bytes of text before the last tag", size), true, func() (string, *engine.Fail) {
				vtick.Reset(2_000_000_000)
				line := "line of text 0123456789 <b>é</b>\r\n"
				text := strings.Repeat(line, size/len(line)+1)[:size]
				src := text + `<%= "v" %>` + "tail\n"
				want := text + "vtail\n"
				plush.CacheEnabled = false
				routes := []struct {
					name string
					run  func() (string, error)
				}{
					{"Render", func() (string, error) { return plush.Render(src, plush.NewContext()) }},
					{"RenderR", func() (string, error) { return plush.RenderR(strings.NewReader(src), plush.NewContext()) }},
					{"RenderR from a one-byte reader", func() (string, error) {
						return plush.RenderR(iotest.OneByteReader(strings.NewReader(src)), plush.NewContext())
					}},
					{"NewTemplate + Exec", func() (string, error) {
						tm, err := plush.NewTemplate(src)
						if err != nil {
							return "", err
						}
						return tm.Exec(plush.NewContext())
					}},
					{"Parse + Clone + Exec", func() (string, error) {
						tm, err := plush.Parse(src)
						if err != nil {
							return "", err
						}
						return tm.Clone().Exec(plush.NewContext())
					}},
					{"BuffaloRenderer", func() (string, error) { return plush.BuffaloRenderer(src, map[string]interface{}{}, nil) }},
				}
				for _, r := range routes {
					if size > 70000 && r.name == "RenderR from a one-byte reader" {
						continue
					}
					out, err := r.run()
					if err != nil || out != want {
						i := 0
						for i < len(out) && i < len(want) && out[i] == want[i] {
							i++
						}
						return "", engine.Failf("mismatch", "%s: %d bytes expected, %d rendered (error %v), first difference at byte %d", r.name, len(want), len(out), err, i)
					}
				}
				return "match", nil
			})
		}
		pieces := []string{"a", "\xef\xbb\xbf", "\r\n", "\r", "\n", "\t", " ", "\x00", "\xff", "\x0b\x0c", "é", `<%= "v" %>`, `<% let q = 1 %>`, "<%= \"x\r\ny\" %>", "<%= `p\r\nq\r` %>"}
		denote := map[string]string{`<%= "v" %>`: "v", `<% let q = 1 %>`: "", "<%= \"x\r\ny\" %>": "x\r\ny", "<%= `p\r\nq\r` %>": "p\r\nq\r"}
		L := 3
		if t.Thorough {
			L = 4
		}
		c02Strings(L, pieces, func(src string) {
			// c02Strings concatenates pieces; recover the expectation by replacing the tags with what they denote
			want := src
			for tag, d := range denote {
				want = strings.Replace(want, tag, d, -1)
			}
			t.Case("bytes "+q(src), strings.ContainsAny(src, "\r\x00\xff"), func() (string, *engine.Fail) {
				out, err := Render(src, plush.NewContext())
				if err != nil || out != want {
					return "", engine.Failf("mismatch", "expected %q, got %q / %v", want, out, err)
				}
				return "match", nil
			})
		})
		// values and text produced at great nesting depth are part of the output like any other
		for _, depth := range []int{5, 33, 40, 70, 130} {
			depth := depth
			t.Case(fmt.Sprintf("bytes recursion depth %d", depth), true, func() (string, *engine.Fail) {
				vtick.Reset(40_000_000)
				src := `<% let f = fn(n) { %>(<%= n %><%= if (n > 0) { %><%= f(n - 1) %><% } %>)<% } %><%= f(` + fmt.Sprint(depth) + `) %>`
				var want strings.Builder
				for n := depth; n >= 0; n-- {
					fmt.Fprintf(&want, "(%d", n)
				}
				want.WriteString(strings.Repeat(")", depth+1))
				out, err := Render(src, plush.NewContext())
				if err != nil || out != want.String() {
					return "", engine.Failf("mismatch", "expected %d balanced levels %q, got %q / %v", depth+1, want.String(), out, err)
				}
				open := strings.Repeat(`<%= if (true) { %>[`, depth)
				src2 := open + "x" + strings.Repeat(`]<% } %>`, depth)
				want2 := strings.Repeat("[", depth) + "x" + strings.Repeat("]", depth)
				out, err = Render(src2, plush.NewContext())
				if err != nil || out != want2 {
					return "", engine.Failf("mismatch", "%d nested blocks: expected %q, got %q / %v", depth, want2, out, err)
				}
				return "match", nil
			})
		}
		for _, base := range []string{"x", "a<%= 1 %>b", "<% let q = 1 %><%= q %>"} {
			for _, v := range [][2]string{{" ", ""}, {"", " "}, {"\n", "\n"}, {"  ", "\n"}, {"\t", ""}, {"", "\r\n"}} {
				base, v := base, v
				t.Case("bytes cached whitespace variants "+q(v[0]+base+v[1]), true, func() (string, *engine.Fail) {
					plush.VerifCacheReset()
					plush.CacheEnabled = true
					defer func() { plush.CacheEnabled = false; plush.VerifCacheReset() }()
					inner := strings.NewReplacer("<%= 1 %>", "1", "<% let q = 1 %>", "", "<%= q %>", "1").Replace(base)
					for _, src := range []string{base, v[0] + base + v[1], base, v[0] + base + v[1]} {
						want := strings.Replace(src, base, inner, 1)
						out, err := plush.Render(src, plush.NewContext())
						if err != nil || out != want {
							return "", engine.Failf("mismatch", "cache on: %q rendered %q / %v, expected %q", src, out, err, want)
						}
					}
					return "match", nil
				})
			}
		}
	case "comment":
		var i int
		fmt.Sscan(parts[1], &i)
		L := 3
		if t.Thorough {
			L = 4
		}
		if i == 0 {
			// line comments inside code and output tags: everything from # to the end of the line - LF, CR or CRLF -
			// contributes nothing, the tag goes on after it
			lineSigma := []string{"a", `"`, "'", "#", "`", "<", "%", "{", "}", "(", " ", `\`, "=", "let", "1.2.3", "%>", "<%"}
			c02Strings(2, lineSigma, func(body string) {
				for _, eol := range []string{"\n", "\r", "\r\n", "\n\r", "\r\r"} {
					for _, form := range []struct{ name, src, want string }{
						{"code-tag", "a<% # " + body + eol + " let x = 1 %>b<%= x %>c", "ab1c"},
						{"code-tag-tight", "a<% let x = 1 #" + body + eol + "%>b<%= x %>c", "ab1c"},
						{"in-block", "<%= if (true) { %>A<% # " + body + eol + " %>B<% } %>C", "ABC"},
						{"output-tag", "a<%= 1 # " + body + eol + " + 2 %>b", "a3b"},
						{"two", "a<% # " + body + eol + "# " + body + eol + " let x = 1 %>b<%= x %>c", "ab1c"},
					} {
						form := form
						t.Case("line-comment "+form.name+" "+q(form.src), true, func() (string, *engine.Fail) {
							out, err := Render(form.src, c02Context())
							if err != nil || out != form.want {
								return "", engine.Failf("mismatch", "a line comment ends at the end of its line and contributes nothing: expected %q, got %q / %v", form.want, out, err)
							}
							return "match", nil
						})
					}
				}
			})
		}
		c02Strings(L-1, c02CommentSigma, func(s string) {
			body := c02CommentSigma[i] + s
			if strings.Contains(body, "%>") || strings.Contains(body+" ", "% >") && false {
				return
			}
			for _, form := range []struct{ name, src, want string }{
				{"top", `x<%# ` + body + ` %>y<%= "v" %>z`, "xyvz"},
				{"tight", `x<%#` + body + `%>y`, "xy"},
				{"in-block", `<%= if (true) { %>x<%# ` + body + ` %>y<% } %>z`, "xyz"},
			} {
				if strings.Contains(form.src[3:len(form.src)-len(form.want)], "%>"+"%>") {
					continue
				}
				form := form
				if strings.Count(form.src, "%>") != strings.Count(form.want, "")-len(form.want)-1+map[string]int{"top": 2, "tight": 1, "in-block": 3}[form.name] {
					continue // the body (glued to the delimiter) formed an extra closing delimiter
				}
				t.Case("comment-tag "+form.name+" "+q(form.src), true, func() (string, *engine.Fail) {
					out, err := Render(form.src, c02Context())
					if err != nil || out != form.want {
						return "", engine.Failf("mismatch", "a comment tag contributes nothing and ends at its closing delimiter: expected %q, got %q / %v", form.want, out, err)
					}
					return "match", nil
				})
			}
		})
	case "esc":
		var i, j int
		fmt.Sscan(parts[1], &i)
		fmt.Sscan(parts[2], &j)
		L := 8
		if t.Thorough {
			L = 10
		}
		tag := c02Tags[0]
		c02Strings(L-2, c02EscSigma, func(s string) {
			src := c02EscSigma[i] + c02EscSigma[j] + s
			c02Check(t, "esc-bare", src, nil, true)
			if len(src) <= L-2 {
				c02Check(t, "esc-around", src+tag.src, map[int]c02Tag{len(src): tag}, true)
				c02Check(t, "esc-around2", src+tag.src+src, map[int]c02Tag{len(src): tag}, true)
			}
		})
	case "bare":
		var i int
		fmt.Sscan(parts[1], &i)
		L := 5
		if t.Thorough {
			L = 6
		}
		if i == 0 {
			c02Check(t, "bare", "", nil, false)
		}
		c02Strings(L-1, c02Sigma, func(s string) {
			src := c02Sigma[i] + s
			c02Check(t, "bare", src, nil, strings.ContainsAny(src, `\<%`))
		})
	case "around":
		var ti, i int
		fmt.Sscan(parts[1], &ti)
		fmt.Sscan(parts[2], &i)
		tag := c02Tags[ti]
		L2 := 1
		if t.Thorough {
			L2 = 2
		}
		if i == 0 {
			// empty s1
			c02Strings(L2, c02Sigma, func(s2 string) {
				c02Check(t, "around", tag.src+s2, map[int]c02Tag{0: tag}, true)
			})
		}
		c02Strings(2, c02Sigma, func(s string) {
			s1 := c02Sigma[i] + s
			c02Strings(L2, c02Sigma, func(s2 string) {
				c02Check(t, "around", s1+tag.src+s2, map[int]c02Tag{len(s1): tag}, true)
			})
		})
	case "str":
		var i int
		fmt.Sscan(parts[1], &i)
		L := 4
		if t.Thorough {
			L = 5
		}
		if i == 0 {
			c02Str(t, "")
		}
		c02Strings(L-1, c02StrSigma, func(s string) { c02Str(t, c02StrSigma[i]+s) })
	case "silent":
		n := len(c02Items)
		var seqs [][]int
		seqs = append(seqs, nil)
		for a := 0; a < n; a++ {
			seqs = append(seqs, []int{a})
			for b := 0; b < n; b++ {
				seqs = append(seqs, []int{a, b})
				for c := 0; c < n; c++ {
					seqs = append(seqs, []int{a, b, c})
				}
			}
		}
		for _, w := range c02Wraps {
			for _, sq := range seqs {
				var src, want, stripped strings.Builder
				nsilent := 0
				for _, ix := range sq {
					it := c02Items[ix]
					src.WriteString(it.src)
					want.WriteString(it.val)
					if it.silent {
						nsilent++
					} else {
						stripped.WriteString(it.src)
					}
				}
				full := c02Prelude + w.pre + src.String() + w.post
				strip := c02Prelude + w.pre + stripped.String() + w.post
				expect := w.opre + want.String() + w.opost
				t.Case("silent "+w.name+" "+q(full), nsilent > 0, func() (string, *engine.Fail) {
					out, err := Render(full, c02Context())
					if err != nil {
						return "", engine.Failf("mismatch", "expected %q, got error %v", expect, err)
					}
					if out != expect {
						return "", engine.Failf("mismatch", "expected %q, got %q", expect, out)
					}
					out2, err2 := Render(strip, c02Context())
					if err2 != nil || out2 != out {
						return "", engine.Failf("mismatch", "template with silent items deleted %q renders %q/%v, full template renders %q", strip, out2, err2, out)
					}
					return "match", nil
				})
			}
		}
	}
}

func c02Str(t *engine.T, body string) {
	nt := strings.ContainsAny(body, "\\\"%<#\n`")
	if !strings.Contains(body, "`") {
		want := template.HTMLEscapeString(body)
		for _, form := range []struct{ name, pre, post string }{
			{"emit", "<%= `", "` %>"},
			{"let", "<% let s = `", "` %>[<%= s %>]"},
			{"arg", "<%= id(`", "`) %>"},
		} {
			src := form.pre + body + form.post
			w := want
			if form.name == "let" {
				w = "[" + want + "]"
			}
			t.Case("bstr "+form.name+" "+q(src), nt, func() (string, *engine.Fail) {
				out, err := Render(src, c02Context())
				if err != nil || out != w {
					return "", engine.Failf("mismatch", "back-quoted string: expected %q, got %q / %v", w, out, err)
				}
				return "match", nil
			})
		}
	}
	den, ok := c02Denote(body)
	if !ok {
		// still must be total
		src := `<%= "` + body + `" %>`
		t.Case("str-open "+q(src), false, func() (string, *engine.Fail) {
			out, err := Render(src, c02Context())
			if f := Totality(out, err); f != nil {
				return "", f
			}
			return "outside-grammar", nil
		})
		return
	}
	want := template.HTMLEscapeString(den)
	for _, form := range []struct{ name, pre, post string }{
		{"emit", `<%= "`, `" %>`},
		{"let", `<% let s = "`, `" %>[<%= s %>]`},
		{"arg", `<%= id("`, `") %>`},
		{"hash", `<%= {"k": "`, `"}["k"] %>`},
		{"in-if", `<%= if (true) { %><%= "`, `" %><% } %>`},
	} {
		src := form.pre + body + form.post
		w := want
		if form.name == "let" {
			w = "[" + want + "]"
		}
		t.Case("str "+form.name+" "+q(src), nt, func() (string, *engine.Fail) {
			out, err := Render(src, c02Context())
			if err != nil || out != w {
				return "", engine.Failf("mismatch", "double-quoted string: expected %q, got %q / %v", w, out, err)
			}
			return "match", nil
		})
	}
}
