package props

import (
	"context"
	"fmt"
	"hash/fnv"
	"os"
	"reflect"
	"regexp"
	"sort"
	"strings"
	"time"

	"verifmc/engine"
	"verifmc/mapctl"

	plush "github.com/gobuffalo/plush/v5"
)

// C13 — rendering is a deterministic function of template and data; templates immutable.

// astDump writes a canonical, cycle-safe dump of any value (all fields, exported or not).
func astDump(sb *strings.Builder, v reflect.Value, seen map[uintptr]int, depth int) {
	if depth > 200 {
		sb.WriteString("<deep>")
		return
	}
	switch v.Kind() {
	case reflect.Invalid:
		sb.WriteString("<invalid>")
	case reflect.Ptr:
		if v.IsNil() {
			sb.WriteString("nil")
			return
		}
		p := v.Pointer()
		if id, ok := seen[p]; ok {
			fmt.Fprintf(sb, "ref#%d", id)
			return
		}
		seen[p] = len(seen)
		fmt.Fprintf(sb, "&#%d", seen[p])
		astDump(sb, v.Elem(), seen, depth+1)
	case reflect.Interface:
		if v.IsNil() {
			sb.WriteString("nil")
			return
		}
		sb.WriteString(v.Elem().Type().String() + ":")
		astDump(sb, v.Elem(), seen, depth+1)
	case reflect.Struct:
		sb.WriteString(v.Type().Name() + "{")
		for i := 0; i < v.NumField(); i++ {
			sb.WriteString(v.Type().Field(i).Name + "=")
			astDump(sb, v.Field(i), seen, depth+1)
			sb.WriteString(";")
		}
		sb.WriteString("}")
	case reflect.Slice, reflect.Array:
		if v.Kind() == reflect.Slice && v.IsNil() {
			sb.WriteString("nil[]")
			return
		}
		fmt.Fprintf(sb, "[%d:", v.Len())
		for i := 0; i < v.Len(); i++ {
			astDump(sb, v.Index(i), seen, depth+1)
			sb.WriteString(",")
		}
		sb.WriteString("]")
	case reflect.Map:
		var entries []string
		it := v.MapRange()
		for it.Next() {
			var e strings.Builder
			astDump(&e, it.Key(), map[uintptr]int{}, depth+1)
			e.WriteString("=>")
			astDump(&e, it.Value(), map[uintptr]int{}, depth+1)
			entries = append(entries, e.String())
		}
		sort.Strings(entries)
		sb.WriteString("map{" + strings.Join(entries, "|") + "}")
	case reflect.String:
		fmt.Fprintf(sb, "%q", v.String())
	case reflect.Bool:
		fmt.Fprintf(sb, "%v", v.Bool())
	case reflect.Int, reflect.Int8, reflect.Int16, reflect.Int32, reflect.Int64:
		fmt.Fprintf(sb, "%d", v.Int())
	case reflect.Uint, reflect.Uint8, reflect.Uint16, reflect.Uint32, reflect.Uint64, reflect.Uintptr:
		fmt.Fprintf(sb, "%d", v.Uint())
	case reflect.Float32, reflect.Float64:
		fmt.Fprintf(sb, "%v", v.Float())
	case reflect.Func, reflect.Chan, reflect.UnsafePointer:
		fmt.Fprintf(sb, "%s@%v", v.Kind(), v.IsNil())
	default:
		fmt.Fprintf(sb, "<%s>", v.Kind())
	}
}

func astHash(t *plush.Template) uint64 {
	var sb strings.Builder
	astDump(&sb, reflect.ValueOf(t.VerifProgram()), map[uintptr]int{}, 0)
	h := fnv.New64a()
	h.Write([]byte(sb.String()))
	return h.Sum64()
}

// c13Loose: a violation of determinism need not recur identically when the case is re-executed
// (the code under test carries hidden state); re-executions are compared by kind only.
func c13Loose(kind, format string, a ...interface{}) *engine.Fail {
	f := engine.Failf(kind, format, a...)
	f.Loose = true
	return f
}

// programs ---------------------------------------------------------------------

type c13Env struct{ log []string }

func (e *c13Env) context(data int) *plush.Context {
	c := CorpusContext()
	c.Set("ev", func(i int) int { e.log = append(e.log, fmt.Sprint("ev", i)); return i })
	c.Set("evs", func(s string) string { e.log = append(e.log, "evs"+s); return s })
	c.Set("m3", map[string]int{"a": 1, "b": 2, "c": 3})
	c.Set("d", data)
	c.Set("animal", c13Animals[data%2])
	c.Set("deep", true)
	c.Set("pat", []string{"^ab", "^x", "c$"}[data%3])
	c.Set("pats", []string{"^ab", "zz", "c$"})
	own := Person{Name: "own", Kid: &Person{Name: "ownkid"}}
	c.Set("Own", own)
	c.Set("rps", []struct{ Own Person }{{own}, {Person{Name: "o2", Kid: &Person{Name: "k2"}}}})
	c.Set("mkr", func() struct{ Own Person } { return struct{ Own Person }{own} })
	// a time value; only the odd data sets choose a format of their own for it
	c.Set("when", time.Date(2021, 3, 4, 5, 6, 7, 0, time.UTC))
	if data%2 == 1 {
		c.Set("TIME_FORMAT", "2006/01/02")
	}
	pf := c.Value("partialFeeder").(func(string) (string, error))
	c.Set("partialFeeder", func(name string) (string, error) {
		switch name {
		case "pd":
			return `[<%= a %><%= b %><%= c %>]`, nil
		case "lay":
			return `L(<%= yield %>)`, nil
		case "self":
			return c13SelfPartial, nil
		case "pdyn":
			// the application's feeder may serve different partial text to different contexts
			return fmt.Sprintf("dyn%d:<%%= d %%>", data), nil
		}
		return pf(name)
	})
	return c
}

type c13Dog struct{}

func (c13Dog) Name() string { return "dog-name" }
func (c13Dog) Zeta() string { return "dog-zeta" }

type c13Cat struct{}

func (c13Cat) Alpha() string { return "cat-alpha" }
func (c13Cat) Name() string  { return "cat-name" }

var c13Animals = []interface{}{c13Dog{}, c13Cat{}}

// c13Family: hash literals with side-effecting values and duplicate keys, map loops, data maps.
// c13SelfPartial renders itself as a partial (one level): with the cache on, the outer and the inner
// execution run the very same parsed program, and the inner one fails inside a helper's block.
const c13SelfPartial = "<%= if (deep) { %>\n\n\n<%= partial(\"self\", {\"deep\": false}) %><% } else { %><%= blk() { %>\n<%= nope %><% } %><% } %>"

func c13Family() []string {
	out := []string{
		c13SelfPartial,
		// the same dotted names as in the probes, but behind an index / a call
		`<%= rps[0].Own.Name %>|<%= mkr().Own.Name %>|<%= rps[1].Own.Kid.Name %>`,
		`<%= for (r) in rps { %><%= r.Own.Name %><% } %>|<%= rps[0].Own.Kid.Name %>`,
		// the printed form of a time depends on the context's TIME_FORMAT only, never on earlier renders
		`<%= when %>;<%= [when][0] %>`,
	}
	keys := []string{`"a"`, `"b"`, "c", `"a"`} // identifiers, strings, a duplicate
	for n := 1; n <= 4; n++ {
		var ps []string
		for i := 0; i < n; i++ {
			ps = append(ps, fmt.Sprintf("%s: ev(%d)", keys[i], i+1))
		}
		h := "{" + strings.Join(ps, ", ") + "}"
		out = append(out,
			`<% let h = `+h+` %><%= h["a"] %>|<%= h["b"] %>|<%= h["c"] %>`,
			`<%= partial("pd", `+strings.Replace(h, "c:", `"c":`, 1)+`) %>`,
			`<%= for (k, v) in `+h+` { %>|<%= k %>=<%= v %><% } %>`,
		)
	}
	out = append(out,
		`<%= {"x": evs("1"), "y": evs("2"), "x": evs("3"), "z": evs("4")}["x"] %>`,
		`<% let h = {"p": 1, "q": 2, "r": 3} %><%= for (k, v) in h { %>|<%= k %><%= v %><% } %>`,
		`<%= for (k, v) in m3 { %>|<%= k %><%= v %><% } %>`,
		`<% contentFor("c") { %><%= a %><%= b %><% } %><%= contentOf("c", {"a": ev(1), "b": ev(2)}) %>`,
		`<%= partial("pd", {"a": ev(1), "b": ev(2), "c": ev(3), "layout": "lay"}) %>`,
		`<%= animal.Name() %>`,
		`<%= d %><%= if (d == 1) { %>one<% } %>`,
		"l1\n<%= if (true) { %>\n<%= 1 / 0 %><% } %>",
		`<%= nope %>`,
		"\n\n<%= nope2 %>",
		`<% let f = fn(x) { return x + ev(9) } %><%= f(1) %><%= f(2) %>`,
		`<% let h = {} %><%= len(h) %>|<% h["a"] = 1 %><% h["b"] = d %><%= len(h) %>|<%= h["b"] %>`,
		`<% let a = [] %><%= len(a) %>|<% let b = a + d %><%= len(b) %>|<%= len(a) %>`,
		`<% let h = {"k": []} %><% h["k"] = h["k"] + 1 %><%= len(h["k"]) %>`,
		`<% let f = fn(a, b) { return a } %><% let p = f.Parameters %><% p[0] = p[1] %><%= f("x", "y") %>`,
		`<%= partial("pdyn") %>`,
		// a match whose pattern is data: the same node meets different patterns in one execution and in later ones
		`<%= "abc" ~= pat %>|<%= "xbc" ~= pat %>|<%= for (p) in pats { %><%= "abc" ~= p %>,<% } %>|<%= "abd" ~= "^" + pat %>`,
		`<% let f = fn(a) { return a } %><% let b = f.Block %><%= f("x") %>`,
		"<%= d %> <% let = 3 %> x <%= 1 + %>",
		`<%= if (d == 0 { %>x<% } %>`,
	)
	return out
}

func c13Programs() []string { return append(append([]string{}, Corpus...), c13Family()...) }

type c13Result struct {
	out, err string
	log      string
}

func c13Exec(t *plush.Template, data int) c13Result {
	e := &c13Env{}
	out, err := t.Exec(e.context(data))
	return c13Result{c13Canon(out), errStr(err), strings.Join(e.log, ",")}
}

// c13Canon sorts the |-separated chunks of map-loop outputs (the licensed variation).
func c13Canon(out string) string {
	if !strings.Contains(out, "|") {
		return out
	}
	// whitespace around the whole output stays where it is
	if core := strings.TrimSpace(out); core != out {
		i := strings.Index(out, core)
		return out[:i] + c13Canon(core) + out[i+len(core):]
	}
	parts := strings.Split(out, "|")
	head := parts[0]
	rest := parts[1:]
	sort.Strings(rest)
	return head + "|" + strings.Join(rest, "|")
}

func c13Fresh(src string, data int) c13Result {
	plush.CacheEnabled = false
	t, err := plush.NewTemplate(src)
	if err != nil {
		return c13Result{"", err.Error(), ""}
	}
	return c13Exec(t, data)
}

func init() {
	engine.Register(&engine.Prop{
		ID: "C13",
		Shards: func(th bool) []string {
			s := []string{"paths", "cross", "ctors", "env", "seq"}
			for i := 0; i < c13NOps(); i++ {
				s = append(s, fmt.Sprintf("hist:cold:%d", i), fmt.Sprintf("hist:warm:%d", i))
			}
			return s
		},
		Run:  c13Run,
		Rule: "programs: a 35-template corpus covering every construct + a family of hash literals (1..4 entries, identifier/string/duplicate keys, side-effecting values), map loops, data maps, method calls on receivers of two dynamic types, a time value printed with and without a TIME_FORMAT in the context, a template that renders itself as a partial and fails inside a helper block of the inner execution, empty array/hash literals that are kept and written to, failing templates and templates that do not parse. (seq) a Template whose exported Input field is written to after Parse (cache off / on): same rendering, same program, the cache still serves the original text; every sequence of <=3 renders over 10 (template, data) pairs whose result is known outright - envOr / env of a variable that is not set (a name of its own per sequence) with different defaults, one path template over receivers that are different struct types printing the same type name with their fields in different order (and a map, a pointer, an embedding struct), cache off and on: every render gives its own known result whatever was rendered before it in the process. (paths) every program x 2 data sets: fresh parse, 3 repeated executions of one parsed template, Clone, cache cold, cache warm, cache off again — all (out, err, side-effect log) equal; deep structural hash (reflection over every field, cycle-safe) of the parsed program equal before and after every execution. (cross) every probe template (contentOf of every block name the corpus defines, unknown variables / functions, a time, a partial, a regexp match) renders the same before and after every corpus program was executed with fresh contexts, cache off and on - also for a probe that was parsed before and stays alive (its program hash, its executions and its Clone are unchanged by the other template's parse); (paths, cache) a text differing only in surrounding whitespace is another template: from the warm cache it renders what a fresh parse of it renders. (ctors) top-level bindings made by an execution whose context came from any of 6 constructors (and BuffaloRenderer with nil data) are invisible to later executions in fresh contexts from all 6; every history of <=4 calls of pluralize / singularize over 4 words gives each call one result. (env) every map-iteration call made during an execution is an environment choice point (runtime overlay): all single deviations (two in thorough) from the default order give the same (out, err, log); for-over-map output is compared as a multiset. (hist) explicit enumeration of histories over {fresh parse+exec, exec of a long-lived template, Clone+exec, Render through the cache, toggle CacheEnabled, CacheSet} x 6 templates (a partial whose feeder text depends on the context, ok with an empty hash literal that is written to, failing inside a block on line 3, failing at top level, method call, one that does not parse) x 2 data sets, from a cold and a warm cache; after every operation the result equals the pristine reference for (text, data), every live template's program hash is unchanged and a cached template was parsed from its key. Non-trivial: histories with >=2 operations / programs with a map or side effect.",
		Bound: func(th bool) string {
			if th {
				return "histories of length <=4 over the full 56-operation alphabet; all pairs of map-order deviations"
			}
			return "histories of length <=3 over the full 56-operation alphabet; all single map-order deviations"
		},
	})
}

// history alphabet ---------------------------------------------------------------

var c13Templates = []string{
	`<%= d %>:<%= {"a": ev(1), "b": ev(2)}["a"] %><% let h = {} %><% h["k"] = d %><%= len(h) %>`,
	"x\n<%= if (true) { %>\n<%= d / 0 %><% } %>",
	`<%= nope %>`,
	`<%= animal.Name() %> <%= when %>`,
	"ok <%= d %>\n<% let = 3 %> tail <%= 1 + %>", // does not parse
	`<%= partial("pdyn") %>|<%= partial("pd", {"a": d, "b": 2, "c": 3}) %>`,
}

type c13Op struct {
	kind string // fresh | exec | clone | render | toggle | cacheset
	j, d int
}

func c13Ops() []c13Op {
	var ops []c13Op
	for _, k := range []string{"fresh", "exec", "clone", "render"} {
		for j := range c13Templates {
			for d := 0; d < 2; d++ {
				ops = append(ops, c13Op{k, j, d})
			}
		}
	}
	ops = append(ops, c13Op{"toggle", 0, 0})
	for j := range c13Templates {
		ops = append(ops, c13Op{"cacheset", j, 0})
	}
	return ops
}

func c13NOps() int { return len(c13Ops()) }

func (o c13Op) String() string {
	switch o.kind {
	case "toggle":
		return "toggleCache"
	case "cacheset":
		return fmt.Sprintf("CacheSet(T%d)", o.j)
	}
	return fmt.Sprintf("%s(T%d,d%d)", o.kind, o.j, o.d)
}

var c13Ref [][]c13Result

func c13Reference() {
	if c13Ref != nil {
		return
	}
	plush.CacheEnabled = false
	plush.VerifCacheReset()
	for j := range c13Templates {
		var row []c13Result
		for d := 0; d < 2; d++ {
			row = append(row, c13Fresh(c13Templates[j], d))
		}
		c13Ref = append(c13Ref, row)
	}
}

func c13RunHistory(hist []c13Op, warm bool) *engine.Fail {
	plush.VerifCacheReset()
	plush.CacheEnabled = false
	long := make([]*plush.Template, len(c13Templates))
	hashes := map[*plush.Template]uint64{}
	track := func(t *plush.Template) {
		if t != nil && t.VerifProgram() != nil {
			if _, ok := hashes[t]; !ok {
				hashes[t] = astHash(t)
			}
		}
	}
	for j, src := range c13Templates {
		long[j], _ = plush.NewTemplate(src)
		track(long[j])
	}
	if warm {
		plush.CacheEnabled = true
		for _, src := range c13Templates {
			t, _ := plush.Parse(src)
			track(t)
		}
	}
	defer func() { plush.CacheEnabled = false; plush.VerifCacheReset() }()
	for step, o := range hist {
		var got *c13Result
		switch o.kind {
		case "fresh":
			t, err := plush.NewTemplate(c13Templates[o.j])
			if err != nil {
				r := c13Result{"", err.Error(), ""}
				got = &r
			} else {
				track(t)
				r := c13Exec(t, o.d)
				got = &r
			}
		case "exec":
			r := c13Exec(long[o.j], o.d)
			got = &r
		case "clone":
			c := long[o.j].Clone()
			track(c)
			r := c13Exec(c, o.d)
			got = &r
		case "render":
			e := &c13Env{}
			out, err := plush.Render(c13Templates[o.j], e.context(o.d))
			r := c13Result{c13Canon(out), errStr(err), strings.Join(e.log, ",")}
			got = &r
			if t, ok := plush.VerifCacheGet(c13Templates[o.j]); ok {
				track(t)
			}
		case "toggle":
			plush.CacheEnabled = !plush.CacheEnabled
		case "cacheset":
			plush.CacheSet(c13Templates[o.j], long[o.j])
		}
		if got != nil && *got != c13Ref[o.j][o.d] {
			return c13Loose("nondeterministic", "step %d %s: result %+v differs from the pristine result %+v", step, o, *got, c13Ref[o.j][o.d])
		}
		for t, h := range hashes {
			if astHash(t) != h {
				return c13Loose("program-mutated", "step %d %s: the parsed program of template %q changed", step, o, t.Input)
			}
		}
		for j, src := range c13Templates {
			if t, ok := plush.VerifCacheGet(src); ok {
				if t.Input != src {
					return engine.Failf("cache", "step %d %s: cache entry for T%d holds a template parsed from %q", step, o, j, t.Input)
				}
			}
		}
	}
	return nil
}

func c13Run(t *engine.T, shard string) {
	c13Reference()
	parts := strings.Split(shard, ":")
	switch parts[0] {
	case "hist":
		warm := parts[1] == "warm"
		var first int
		fmt.Sscan(parts[2], &first)
		ops := c13Ops()
		maxLen := 3
		if t.Thorough {
			maxLen = 4
		}
		var rec func(h []c13Op)
		rec = func(h []c13Op) {
			hh := append([]c13Op{}, h...)
			names := make([]string, len(hh))
			for i, o := range hh {
				names[i] = o.String()
			}
			t.Case(fmt.Sprintf("history warm=%v [%s]", warm, strings.Join(names, "; ")), len(hh) >= 2, func() (string, *engine.Fail) {
				if f := c13RunHistory(hh, warm); f != nil {
					return "", f
				}
				return "deterministic", nil
			})
			if len(h) == maxLen {
				return
			}
			for _, o := range ops {
				if !t.Thorough && len(h)+1 < maxLen && o.d != 0 {
					continue // quick tier: only the last operation of a history varies the data set
				}
				rec(append(h[:len(h):len(h)], o))
			}
		}
		if !t.Thorough && ops[first].d != 0 {
			rec2 := func() { // a history of length 1 only
				o := ops[first]
				t.Case(fmt.Sprintf("history warm=%v [%s]", warm, o.String()), false, func() (string, *engine.Fail) {
					if f := c13RunHistory([]c13Op{o}, warm); f != nil {
						return "", f
					}
					return "deterministic", nil
				})
			}
			rec2()
			return
		}
		rec([]c13Op{ops[first]})
	case "paths":
		for _, src := range c13Programs() {
			for d := 0; d < 2; d++ {
				src, d := src, d
				t.Case(fmt.Sprintf("paths d=%d %q", d, src), true, func() (string, *engine.Fail) {
					plush.VerifCacheReset()
					defer func() { plush.CacheEnabled = false; plush.VerifCacheReset() }()
					ref := c13Fresh(src, d)
					tm, err := plush.NewTemplate(src)
					if err != nil {
						// a template that does not parse must fail the same way on every path
						perr := err.Error()
						same := func(what string, e error, out string) *engine.Fail {
							if errStr(e) != perr || out != "" {
								return c13Loose("nondeterministic", "%s of a template that does not parse: %q / %s, first parse said %q", what, out, errStr(e), perr)
							}
							return nil
						}
						for i := 0; i < 3; i++ {
							e := &c13Env{}
							out, e2 := tm.Exec(e.context(d))
							if f := same(fmt.Sprintf("execution %d", i+1), e2, out); f != nil {
								return "", f
							}
						}
						e := &c13Env{}
						out, e2 := tm.Clone().Exec(e.context(d))
						if f := same("Clone", e2, out); f != nil {
							return "", f
						}
						plush.CacheEnabled = true
						for _, what := range []string{"cache cold", "cache warm", "cache warm again"} {
							e := &c13Env{}
							out, e2 := plush.Render(src, e.context(d))
							if f := same(what, e2, out); f != nil {
								return "", f
							}
						}
						plush.CacheEnabled = false
						e = &c13Env{}
						out, e2 = plush.Render(src, e.context(d))
						if f := same("cache off again", e2, out); f != nil {
							return "", f
						}
						return "parse-error", nil
					}
					h0 := astHash(tm)
					check := func(what string, r c13Result, tt *plush.Template) *engine.Fail {
						if r != ref {
							return c13Loose("nondeterministic", "%s: %+v differs from the fresh result %+v", what, r, ref)
						}
						if tt != nil && astHash(tt) != h0 {
							return c13Loose("program-mutated", "%s: the parsed program changed during execution", what)
						}
						return nil
					}
					for i := 0; i < 3; i++ {
						if f := check(fmt.Sprintf("execution %d of one parsed template", i+1), c13Exec(tm, d), tm); f != nil {
							return "", f
						}
					}
					cl := tm.Clone()
					if f := check("Clone", c13Exec(cl, d), cl); f != nil {
						return "", f
					}
					// other data in between, then again
					refOther := c13Fresh(src, 1-d)
					if r := c13Exec(tm, 1-d); r != refOther {
						return "", c13Loose("nondeterministic", "execution with the other data set on the template already executed: %+v differs from the fresh result %+v", r, refOther)
					}
					if r := c13Exec(tm.Clone(), 1-d); r != refOther {
						return "", c13Loose("nondeterministic", "Clone executed with the other data set: %+v differs from the fresh result %+v", r, refOther)
					}
					if f := check("execution after one with other data", c13Exec(tm, d), tm); f != nil {
						return "", f
					}
					plush.CacheEnabled = true
					for i, what := range []string{"cache cold", "cache warm", "cache warm again"} {
						e := &c13Env{}
						out, err := plush.Render(src, e.context(d))
						r := c13Result{c13Canon(out), errStr(err), strings.Join(e.log, ",")}
						ct, _ := plush.VerifCacheGet(src)
						if f := check(what, r, nil); f != nil {
							return "", f
						}
						if ct != nil && astHash(ct) != h0 {
							return "", c13Loose("program-mutated", "%s: cached program differs from a fresh parse (step %d)", what, i)
						}
					}
					// a text that differs only in whitespace around it is another template: served from the (warm) cache it
					// renders what a fresh parse of that text renders, and the original still renders as before
					for _, v := range []string{"\n" + src, src + "\n", " " + src + " \n"} {
						plush.CacheEnabled = false
						want := c13Fresh(v, d)
						plush.CacheEnabled = true
						for pass := 0; pass < 2; pass++ {
							e := &c13Env{}
							out, err := plush.Render(v, e.context(d))
							if r := (c13Result{c13Canon(out), errStr(err), strings.Join(e.log, ",")}); r != want {
								return "", c13Loose("nondeterministic", "cache warm with %q, rendering %q (pass %d): %+v differs from a fresh parse of that text %+v", src, v, pass+1, r, want)
							}
						}
						e := &c13Env{}
						out, err := plush.Render(src, e.context(d))
						if f := check("original after its whitespace variant was cached", c13Result{c13Canon(out), errStr(err), strings.Join(e.log, ",")}, nil); f != nil {
							return "", f
						}
					}
					plush.CacheEnabled = false
					if f := check("cache off again", c13Fresh(src, d), nil); f != nil {
						return "", f
					}
					if ref.err != "<nil>" {
						return "same-error", nil
					}
					return "same-output", nil
				})
			}
		}
	case "cross":
		// executions are independent: what a probe template renders (with its own fresh context) does not depend on
		// which other template was executed before it
		names := map[string]bool{}
		re := regexp.MustCompile(`contentFor\("([^"]+)"`)
		for _, src := range c13Programs() {
			for _, m := range re.FindAllStringSubmatch(src, -1) {
				names[m[1]] = true
			}
		}
		probes := []string{`<%= Own.Name %>`, `<%= Own.Kid.Name %>|<%= animal.Name() %>`, `<%= y %>`, `<%= h %>|<%= f(1) %>`, `[<%= when %>]`, `<%= partial("pd", {"a": 1, "b": 2, "c": 3}) %>`, `<%= sv ~= "^a" %>`, `<%= {"a": 1}["a"] %>|<%= len([1, 2]) %>`}
		for n := range names {
			probes = append(probes, `<%= contentOf("`+n+`") %>`, `<%= contentOf("`+n+`") { %>default<% } %>`)
		}
		sort.Strings(probes)
		for _, a := range c13Programs() {
			for _, b := range probes {
				a, b := a, b
				t.Case(fmt.Sprintf("cross probe %q after %q", b, a), true, func() (string, *engine.Fail) {
					plush.CacheEnabled = false
					before := c13Fresh(b, 0)
					// a parsed probe that stays alive while the other template is parsed and executed
					kept, kerr := plush.NewTemplate(b)
					var h0 uint64
					if kerr == nil {
						h0 = astHash(kept)
						if r := c13Exec(kept, 0); r != before {
							return "", c13Loose("nondeterministic", "parsed probe renders %+v, fresh render %+v", r, before)
						}
					}
					c13Fresh(a, 0)
					c13Fresh(a, 1)
					after := c13Fresh(b, 0)
					if before != after {
						return "", c13Loose("nondeterministic", "probe renders %+v before and %+v after another template was executed", before, after)
					}
					if kerr == nil {
						if astHash(kept) != h0 {
							return "", c13Loose("program-mutated", "the parsed program of the probe changed while another template was parsed and executed")
						}
						if r := c13Exec(kept, 0); r != before {
							return "", c13Loose("nondeterministic", "the parsed probe renders %+v after another template was parsed and executed, before %+v", r, before)
						}
						if r := c13Exec(kept.Clone(), 0); r != before {
							return "", c13Loose("nondeterministic", "a Clone of the parsed probe renders %+v after another template was parsed and executed, before %+v", r, before)
						}
					}
					plush.VerifCacheReset()
					plush.CacheEnabled = true
					defer func() { plush.CacheEnabled = false; plush.VerifCacheReset() }()
					e := &c13Env{}
					plush.Render(a, e.context(1))
					e2 := &c13Env{}
					out, err := plush.Render(b, e2.context(0))
					if r := (c13Result{c13Canon(out), errStr(err), strings.Join(e2.log, ",")}); r != before {
						return "", c13Loose("nondeterministic", "probe renders %+v after another template was rendered through the cache, alone it renders %+v", r, before)
					}
					return "independent", nil
				})
			}
		}
	case "seq":
		c13Seq(t)
	case "ctors":
		// whichever way the context of an execution was built, names it binds at its top level stay in that context
		setters := []string{`<% let title9 = "T" %>`, `<% contentFor("leak9") { %>x<% } %>`, `<% let f9 = fn() { return 1 } %>`, `<% let len = "mine" %>`}
		probes := []string{`<%= title9 %>`, `<%= contentOf("leak9") %>`, `<%= f9() %>`, `<%= len("ab") %>`}
		mks := map[string]func() *plush.Context{
			"NewContext":            func() *plush.Context { return plush.NewContext() },
			"NewContextWith(nil)":   func() *plush.Context { return plush.NewContextWith(nil) },
			"NewContextWith({})":    func() *plush.Context { return plush.NewContextWith(map[string]interface{}{}) },
			"NewContextWithOuter":   func() *plush.Context { return plush.NewContextWithOuter(nil, plush.NewContext()) },
			"NewContextWithContext": func() *plush.Context { return plush.NewContextWithContext(context.Background()) },
			"New()":                 func() *plush.Context { return plush.NewContext().New().(*plush.Context) },
		}
		var names []string
		for n := range mks {
			names = append(names, n)
		}
		sort.Strings(names)
		for _, mn := range names {
			for si, set := range setters {
				mn, si, set := mn, si, set
				t.Case(fmt.Sprintf("ctors %s %q", mn, set), true, func() (string, *engine.Fail) {
					plush.CacheEnabled = false
					var before []string
					for _, p := range probes {
						out, err := plush.Render(p, plush.NewContext())
						before = append(before, out+"/"+errStr(err))
					}
					if _, err := plush.Render(set, mks[mn]()); err != nil {
						return "", engine.Failf("harness", "%v", err)
					}
					if _, err := plush.BuffaloRenderer(set, nil, nil); err != nil {
						return "", engine.Failf("harness", "%v", err)
					}
					for _, mk2 := range names {
						for pi, p := range probes {
							out, err := plush.Render(p, mks[mk2]())
							if got := out + "/" + errStr(err); got != before[pi] {
								return "", c13Loose("nondeterministic", "after %q ran in a context from %s, %q in a fresh context from %s gives %q, before %q", set, mn, p, mk2, got, before[pi])
							}
						}
					}
					_ = si
					return "independent", nil
				})
			}
		}
		// pure helpers are functions of their arguments: every history of <=4 calls over 2 helpers x 4 words
		words := []string{"person", "mouse", "people", "mice"}
		type call struct{ h, w string }
		var alphabet []call
		for _, h := range []string{"pluralize", "singularize"} {
			for _, w := range words {
				alphabet = append(alphabet, call{h, w})
			}
		}
		ref := map[call]string{}
		one := func(c call) string {
			out, err := plush.Render(`<%= `+c.h+`("`+c.w+`") %>`, plush.NewContext())
			return out + "/" + errStr(err)
		}
		var rec func(h []call)
		rec = func(h []call) {
			if len(h) > 0 {
				hh := append([]call{}, h...)
				t.Case(fmt.Sprintf("ctors helper history %v", hh), len(hh) > 1, func() (string, *engine.Fail) {
					var first map[call]string = map[call]string{}
					for _, c := range hh {
						got := one(c)
						if w, ok := first[c]; ok && w != got {
							return "", c13Loose("nondeterministic", "history %v: %v gives %q, earlier in the same history %q", hh, c, got, w)
						}
						first[c] = got
						if w, ok := ref[c]; ok && w != got {
							return "", c13Loose("nondeterministic", "history %v: %v gives %q, in another history %q", hh, c, got, w)
						}
						ref[c] = got
					}
					return "deterministic", nil
				})
			}
			if len(h) == 4 {
				return
			}
			for _, c := range alphabet {
				rec(append(h[:len(h):len(h)], c))
			}
		}
		rec(nil)
	case "env":
		for _, src := range c13Programs() {
			src := src
			// baseline + number of choice points
			tm, err := plush.NewTemplate(src)
			if err != nil {
				continue
			}
			run := func(script []uint64) (c13Result, int) {
				e := &c13Env{}
				ctx := e.context(0)
				mapctl.Begin(script)
				out, err := tm.Exec(ctx)
				n := mapctl.End()
				return c13Result{c13Canon(out), errStr(err), strings.Join(e.log, ",")}, n
			}
			run(nil) // warm-up: one-time lazy initialisation inside the standard library also iterates maps
			base, n := run(nil)
			t.Case(fmt.Sprintf("env baseline (map-iteration calls=%d) %q", n, src), n > 0, func() (string, *engine.Fail) {
				r, n2 := run(nil)
				if r != base || n2 != n {
					return "", c13Loose("nondeterministic", "two default-order runs differ: %+v/%d vs %+v/%d", base, n, r, n2)
				}
				return fmt.Sprintf("choice-points-%d", min(n, 9)), nil
			})
			if n > 40 {
				n = 40
			}
			for i := 0; i < n; i++ {
				for a := uint64(1); a < 8; a++ {
					i, a := i, a
					t.Case(fmt.Sprintf("env deviation call=%d answer=%d %q", i, a, src), true, func() (string, *engine.Fail) {
						script := make([]uint64, i+1)
						script[i] = a
						r, _ := run(script)
						if r != base {
							return "", c13Loose("order-dependent", "map iteration call %d answered %d: %+v, default order: %+v", i, a, r, base)
						}
						return "order-independent", nil
					})
					if t.Thorough {
						for i2 := i + 1; i2 < n; i2++ {
							for _, a2 := range []uint64{1, 3, 5} {
								i2, a2 := i2, a2
								t.Case(fmt.Sprintf("env deviation call=%d answer=%d call=%d answer=%d %q", i, a, i2, a2, src), true, func() (string, *engine.Fail) {
									script := make([]uint64, i2+1)
									script[i], script[i2] = a, a2
									r, _ := run(script)
									if r != base {
										return "", c13Loose("order-dependent", "map iteration calls %d,%d answered %d,%d: %+v, default order: %+v", i, i2, a, a2, r, base)
									}
									return "order-independent", nil
								})
							}
						}
					}
				}
			}
		}
	}
}

// c13Seq: renders whose result is known outright, in every order: what one render computed - about a type, an
// environment variable, a receiver - does not show in the next.
func c13RowA() interface{} {
	type Row struct{ Title, Owner string }
	return Row{"T", "O"}
}

func c13RowB() interface{} {
	type Row struct{ Owner, Title string }
	return Row{"O", "T"}
}

func c13RowC() interface{} {
	type Row struct {
		Extra        int
		Title, Owner string
	}
	return &Row{7, "T", "O"}
}

func c13RowD() interface{} {
	type Inner struct{ Owner, Title string }
	type Row struct {
		Inner
		Pad string
	}
	return Row{Inner{"O", "T"}, "p"}
}

var c13SeqN int

func c13Seq(t *engine.T) {
	type op struct {
		name, src, want string
		fails           bool
		data            func() interface{}
	}
	rowT := `<%= r.Title %>|<%= r.Owner %>`
	ops := []op{
		{"envOr first", `<%= envOr("KEY", "first") %>`, "first", false, nil},
		{"envOr second", `<%= envOr("KEY", "second") %>`, "second", false, nil},
		{"env", `<%= env("KEY") %>`, "", true, nil},
		{"envOr empty", `[<%= envOr("KEY", "") %>]`, "[]", false, nil},
		{"envOr set", `<%= envOr("VERIF_C13_SET", "dflt") %>|<%= env("VERIF_C13_SET") %>`, "is-set|is-set", false, nil},
		{"row A", rowT, "T|O", false, c13RowA},
		{"row B", rowT, "T|O", false, c13RowB},
		{"row C", rowT, "T|O", false, c13RowC},
		{"row D", rowT, "T|O", false, c13RowD},
		{"row map", `<%= r["Title"] %>|<%= r["Owner"] %>`, "T|O", false, func() interface{} { return map[string]string{"Title": "T", "Owner": "O"} }},
	}
	// a parsed template is executed from its program: writing to the exported Input field afterwards changes neither
	// what it renders, nor its program, nor what the cache serves for the original text
	for _, cache := range []bool{false, true} {
		for _, pair := range [][2]string{{`A<%= 1 + 1 %>`, `B<%= 2 + 2 %>`}, {`<%= d %>`, `<%= nope %>`}, {`x`, `<% let = %>`}, {`<%= "abc" ~= pat %>`, `<%= d %>`}} {
			cache, pair := cache, pair
			t.Case(fmt.Sprintf("seq cache=%v Input edited after Parse %q -> %q", cache, pair[0], pair[1]), true, func() (string, *engine.Fail) {
				plush.VerifCacheReset()
				plush.CacheEnabled = cache
				defer func() { plush.CacheEnabled = false; plush.VerifCacheReset() }()
				tm, err := plush.Parse(pair[0])
				if err != nil {
					return "", engine.Failf("harness", "%v", err)
				}
				h0 := astHash(tm)
				r0 := c13Exec(tm, 0)
				tm.Input = pair[1]
				for i := 0; i < 2; i++ {
					if r := c13Exec(tm, 0); r != r0 {
						return "", engine.Failf("nondeterministic", "the parsed template rendered %+v, after its Input field was written to it renders %+v", r0, r)
					}
					if astHash(tm) != h0 {
						return "", engine.Failf("program-mutated", "executing the template replaced its parsed program")
					}
				}
				if r := c13Exec(tm.Clone(), 0); r != r0 {
					return "", engine.Failf("nondeterministic", "a Clone renders %+v, the template %+v", r, r0)
				}
				e := &c13Env{}
				out, err := plush.Render(pair[0], e.context(0))
				if r := (c13Result{c13Canon(out), errStr(err), strings.Join(e.log, ",")}); r != r0 {
					return "", engine.Failf("nondeterministic", "Render of the original text gives %+v after another Template value for it had its Input edited; before: %+v", r, r0)
				}
				if f2, err := plush.Parse(pair[0]); err == nil {
					if r := c13Exec(f2, 0); r != r0 {
						return "", engine.Failf("nondeterministic", "Parse of the original text gives a template rendering %+v, expected %+v", r, r0)
					}
				}
				return "independent", nil
			})
		}
	}
	os.Setenv("VERIF_C13_SET", "is-set")
	var rec func(seq []int)
	rec = func(seq []int) {
		if len(seq) > 0 {
			seq := append([]int{}, seq...)
			var names []string
			for _, i := range seq {
				names = append(names, ops[i].name)
			}
			for _, cache := range []bool{false, true} {
				cache := cache
				t.Case(fmt.Sprintf("seq cache=%v %s", cache, strings.Join(names, " ; ")), len(seq) > 1, func() (string, *engine.Fail) {
					c13SeqN++
					key := fmt.Sprintf("VERIF_C13_UNSET_%d_%d", os.Getpid(), c13SeqN)
					plush.VerifCacheReset()
					plush.CacheEnabled = cache
					defer func() { plush.CacheEnabled = false; plush.VerifCacheReset() }()
					for n, i := range seq {
						o := ops[i]
						ctx := plush.NewContext()
						if o.data != nil {
							ctx.Set("r", o.data())
						}
						out, err := plush.Render(strings.Replace(o.src, "KEY", key, -1), ctx)
						if o.fails {
							if err == nil {
								return "", engine.Failf("nondeterministic", "render %d (%s) must fail (the variable is not set), after %v it rendered %q", n+1, o.name, names[:n], out)
							}
							continue
						}
						if err != nil || out != o.want {
							return "", engine.Failf("nondeterministic", "render %d (%s) renders %q on its own, after %v it rendered %q / %v", n+1, o.name, o.want, names[:n], out, err)
						}
					}
					return "independent", nil
				})
			}
		}
		if len(seq) == 3 {
			return
		}
		for i := range ops {
			rec(append(seq, i))
		}
	}
	rec(nil)
}
