package props

import (
	"fmt"
	"html/template"
	"regexp"
	"strconv"
	"strings"

	"verifmc/engine"

	plush "github.com/gobuffalo/plush/v5"
)

// C06 — operators, precedence and associativity agree with a reference evaluator.

type c06Leaf struct {
	src string
	val interface{}
}

var c06Pool = []c06Leaf{
	{"1", 1}, {"2", 2}, {`"a"`, "a"}, {"true", true}, {"nil", nil},
	{"0", 0}, {"7", 7}, {"n3", -3}, {"1.5", 1.5}, {"2.0", 2.0}, {`"b"`, "b"}, {`""`, ""}, {"false", false},
}

var c06Ops = []string{"*", "/", "+", "-", "<", "<=", ">", ">=", "==", "!=", "~=", "&&", "||"}

func c06Prec(op string) int {
	switch op {
	case "!":
		return 6
	case "*", "/":
		return 5
	case "+", "-":
		return 4
	case "<", "<=", ">", ">=":
		return 3
	case "==", "!=", "~=":
		return 2
	case "&&", "||":
		return 1
	}
	return 0
}

// tree node: leaf (op=="") | unary ! | binary
type c06Node struct {
	op   string
	l, r *c06Node
	leaf c06Leaf
	id   int // leaf id for the recording helper
}

type c06Unspec struct{}
type c06Err struct{ why string }

func c06Truthy(v interface{}) bool {
	switch t := v.(type) {
	case nil:
		return false
	case bool:
		return t
	case string:
		return t != ""
	}
	return true
}

// c06Eval is the reference evaluator. It returns a value, c06Err or c06Unspec;
// visited records the leaves evaluated (short-circuit observation).
func c06Eval(n *c06Node, visited *[]int) interface{} {
	if n.op == "" {
		*visited = append(*visited, n.id)
		return n.leaf.val
	}
	if n.op == "!" {
		v := c06Eval(n.l, visited)
		switch v.(type) {
		case c06Err, c06Unspec:
			return v
		}
		return !c06Truthy(v)
	}
	l := c06Eval(n.l, visited)
	switch l.(type) {
	case c06Err, c06Unspec:
		return l
	}
	if n.op == "&&" && !c06Truthy(l) {
		return false
	}
	if n.op == "||" && c06Truthy(l) {
		return true
	}
	r := c06Eval(n.r, visited)
	switch r.(type) {
	case c06Err, c06Unspec:
		return r
	}
	if n.op == "&&" || n.op == "||" {
		return c06Truthy(r)
	}
	if l == nil || r == nil {
		switch n.op {
		case "==":
			return l == r
		case "!=":
			return l != r
		}
		return c06Err{"nil operand of " + n.op}
	}
	switch a := l.(type) {
	case int:
		b, ok := r.(int)
		if !ok {
			return c06Err{"int with non-int"}
		}
		switch n.op {
		case "+":
			return a + b
		case "-":
			return a - b
		case "*":
			return a * b
		case "/":
			if b == 0 {
				return c06Err{"division by zero"}
			}
			return a / b
		case "<":
			return a < b
		case "<=":
			return a <= b
		case ">":
			return a > b
		case ">=":
			return a >= b
		case "==":
			return a == b
		case "!=":
			return a != b
		}
		return c06Err{"~= on ints"}
	case float64:
		b, ok := r.(float64)
		if !ok {
			return c06Err{"float with non-float"}
		}
		switch n.op {
		case "+":
			return a + b
		case "-":
			return a - b
		case "*":
			return a * b
		case "/":
			if b == 0 {
				return c06Err{"division by zero"}
			}
			return a / b
		case "<":
			return a < b
		case "<=":
			return a <= b
		case ">":
			return a > b
		case ">=":
			return a >= b
		case "==":
			return a == b
		case "!=":
			return a != b
		}
		return c06Err{"~= on floats"}
	case string:
		if n.op == "+" {
			return a + fmt.Sprint(r)
		}
		b, ok := r.(string)
		if !ok {
			if n.op == "-" || n.op == "*" || n.op == "/" {
				return c06Err{"arithmetic on string"}
			}
			return c06Unspec{} // string compared with a non-string: coercion is unspecified
		}
		switch n.op {
		case "<":
			return a < b
		case "<=":
			return a <= b
		case ">":
			return a > b
		case ">=":
			return a >= b
		case "==":
			return a == b
		case "!=":
			return a != b
		case "~=":
			re, err := regexp.Compile(b)
			if err != nil {
				return c06Err{"bad regexp"}
			}
			return re.MatchString(a)
		}
		return c06Err{"arithmetic on strings"}
	case bool:
		b, ok := r.(bool)
		if !ok {
			return c06Unspec{} // bool with a non-bool right operand: unspecified
		}
		switch n.op {
		case "==":
			return a == b
		case "!=":
			return a != b
		case "+":
			return c06Unspec{} // bool + bool: unspecified
		}
		return c06Err{"ordering/arithmetic on bools"}
	}
	return c06Unspec{}
}

// printing -------------------------------------------------------------

func c06Print(n *c06Node, mode string, rec bool) string {
	if n.op == "" {
		if rec {
			return fmt.Sprintf("o(%d, %s)", n.id, n.leaf.src)
		}
		if mode == "leafparens" {
			return "(" + n.leaf.src + ")"
		}
		return n.leaf.src
	}
	if n.op == "!" {
		in := c06Print(n.l, mode, rec)
		if n.l.op != "" && n.l.op != "!" || mode == "full" && n.l.op != "" {
			in = "(" + in + ")"
		}
		return "!" + in
	}
	ls, rs := c06Print(n.l, mode, rec), c06Print(n.r, mode, rec)
	p := c06Prec(n.op)
	needL := n.l.op != "" && c06Prec(n.l.op) < p
	needR := n.r.op != "" && n.r.op != "!" && c06Prec(n.r.op) <= p
	if mode == "full" {
		needL = n.l.op != ""
		needR = n.r.op != ""
	}
	if needL {
		ls = "(" + ls + ")"
	}
	if needR {
		rs = "(" + rs + ")"
	}
	return ls + " " + n.op + " " + rs
}

func c06Render(v interface{}) string {
	switch t := v.(type) {
	case nil:
		return ""
	case string:
		return template.HTMLEscapeString(t)
	}
	return fmt.Sprint(v)
}

func c06Context(log *[]int) *plush.Context {
	c := plush.NewContext()
	c.Set("n3", -3)
	c.Set("o", func(id int, v interface{}) interface{} {
		*log = append(*log, id)
		return v
	})
	return c
}

func c06Leafs(n *c06Node, out *[]*c06Node) {
	if n.op == "" {
		*out = append(*out, n)
		return
	}
	c06Leafs(n.l, out)
	if n.r != nil {
		c06Leafs(n.r, out)
	}
}

func c06Check(t *engine.T, shape string, root *c06Node) {
	var leaves []*c06Node
	c06Leafs(root, &leaves)
	for i, l := range leaves {
		l.id = i
	}
	var visited []int
	want := c06Eval(root, &visited)
	minimal := c06Print(root, "min", false)
	variants := []struct {
		name, expr string
		rec        bool
	}{
		{"min", minimal, false},
		{"full", c06Print(root, "full", false), false},
		{"leafparens", c06Print(root, "leafparens", false), false},
		{"rec", c06Print(root, "min", true), true},
	}
	nontrivial := root.l != nil && (root.l.op != "" || (root.r != nil && root.r.op != ""))
	for _, v := range variants {
		if v.name == "full" && v.expr == minimal {
			continue
		}
		src := `<%= ` + v.expr + ` %>`
		rec := v.rec
		t.Case("expr "+shape+" "+v.name+" "+src, nontrivial, func() (string, *engine.Fail) {
			var log []int
			out, err := Render(src, c06Context(&log))
			if f := Totality(out, err); f != nil {
				return "", f
			}
			switch w := want.(type) {
			case c06Unspec:
				return "unspecified", nil
			case c06Err:
				if err == nil {
					return "", engine.Failf("mismatch", "reference: error (%s); got output %q", w.why, out)
				}
				return "error", nil
			default:
				if err != nil {
					return "", engine.Failf("mismatch", "reference: %v (%T); got error %v", want, want, err)
				}
				if out != c06Render(want) {
					return "", engine.Failf("mismatch", "reference: %q; got %q", c06Render(want), out)
				}
				if rec {
					if fmt.Sprint(sortedInts(log)) != fmt.Sprint(sortedInts(visited)) {
						return "", engine.Failf("short-circuit", "operands evaluated %v, reference evaluates %v", log, visited)
					}
				}
				return "value", nil
			}
		})
	}
}

func sortedInts(a []int) []int {
	b := append([]int{}, a...)
	for i := range b {
		for j := i + 1; j < len(b); j++ {
			if b[j] < b[i] {
				b[i], b[j] = b[j], b[i]
			}
		}
	}
	return b
}

func leaf(i int) *c06Node { return &c06Node{leaf: c06Pool[i]} }

func init() {
	engine.Register(&engine.Prop{
		ID: "C06",
		Shards: func(th bool) []string {
			s := []string{"depth1", "spellings"}
			for _, op := range c06Ops {
				s = append(s, "L:"+op, "R:"+op, "LR:"+op, "N:"+op, "D3:"+op)
			}
			return s
		},
		Run:  c06Run,
		Rule: "expression trees over the pool {0,1,2,7,-3 (variable),1.5,2.0,\"a\",\"b\",\"\",true,false,nil} and all 13 binary operators + '!': every depth-1 tree; every (a∘b)∘c and a∘(b∘c) for all operator pairs and all operand triples; every (a∘b)∘(c∘d) for all operator triples over a reduced pool; the depth-3 chains a∘((b∘c)∘d), ((a∘b)∘c)∘d, a∘(b∘(c∘d)) for all operator triples over a pool of 3 (5 thorough); '!' applied to leaves and subtrees. Each tree is printed with minimal parentheses under the stated precedence table, with full parentheses, with redundant parentheses around every leaf, and with recording operands (short-circuit observation), rendered on the real code and compared with a reference evaluator in Go. Same-spelling literals: 14 programs mixing an int / float / bool literal with a string literal of the same characters in both orders (each keeps its kind). Big integers: 12 comparisons / sums / products / quotients around 2^53 and MaxInt (exact). Regex match: 29 (subject, pattern) pairs incl. alternation, anchors, classes, quantifiers, escapes, as literal / variable / concatenation, against Go's regexp. Printed form: \"v=\" + x equals \"v=\" followed by what <%= x %> prints, for 16 numeric / boolean operands incl. floats that print in exponent form. Number spellings: every pair of literals from {5, 05, 0.5, .5, 2.0, 10.25, .25} with + * / < == > written with spaces, tight (a∘b), parenthesised tight ((a)∘(b)) and as array elements, against Go arithmetic on the same values. Unspecified coercions (bool op non-bool, string compared with non-string, bool+bool) are only checked for totality. Non-trivial: tree has at least two operators.",
		Bound: func(th bool) string {
			if th {
				return "depth-2 trees (4-leaf shape over a pool of 7 operands, 3-leaf shapes over all 13) and depth-3 chains over a pool of 5"
			}
			return "depth-2 trees (4-leaf shape over a pool of 5 operands, 3-leaf shapes over all 13) and depth-3 chains over a pool of 3"
		},
	})
}

func c06Run(t *engine.T, shard string) {
	kind, op, _ := strings.Cut(shard, ":")
	n := len(c06Pool)
	switch kind {
	case "spellings":
		c06Spellings(t)
	case "depth1":
		for a := 0; a < n; a++ {
			c06Check(t, "!a", &c06Node{op: "!", l: leaf(a)})
			c06Check(t, "!!a", &c06Node{op: "!", l: &c06Node{op: "!", l: leaf(a)}})
			for b := 0; b < n; b++ {
				for _, o := range c06Ops {
					c06Check(t, "a∘b", &c06Node{op: o, l: leaf(a), r: leaf(b)})
				}
			}
		}
	case "L": // (a op b) op2 c
		for _, o2 := range c06Ops {
			for a := 0; a < n; a++ {
				for b := 0; b < n; b++ {
					for c := 0; c < n; c++ {
						c06Check(t, "(a∘b)∘c", &c06Node{op: o2, l: &c06Node{op: op, l: leaf(a), r: leaf(b)}, r: leaf(c)})
					}
				}
			}
		}
	case "R": // a op (b op2 c)
		for _, o2 := range c06Ops {
			for a := 0; a < n; a++ {
				for b := 0; b < n; b++ {
					for c := 0; c < n; c++ {
						c06Check(t, "a∘(b∘c)", &c06Node{op: op, l: leaf(a), r: &c06Node{op: o2, l: leaf(b), r: leaf(c)}})
					}
				}
			}
		}
	case "LR": // (a o1 b) op (c o3 d)
		m := 5
		if t.Thorough {
			m = 7
		}
		for _, o1 := range c06Ops {
			for _, o3 := range c06Ops {
				for a := 0; a < m; a++ {
					for b := 0; b < m; b++ {
						for c := 0; c < m; c++ {
							for d := 0; d < m; d++ {
								c06Check(t, "(a∘b)∘(c∘d)", &c06Node{op: op, l: &c06Node{op: o1, l: leaf(a), r: leaf(b)}, r: &c06Node{op: o3, l: leaf(c), r: leaf(d)}})
							}
						}
					}
				}
			}
		}
	case "D3": // depth-3 chains: a op ((b o2 c) o3 d), ((a o2 b) o3 c) op d, a op (b o2 (c o3 d))
		m := 3
		if t.Thorough {
			m = 5
		}
		for _, o2 := range c06Ops {
			for _, o3 := range c06Ops {
				for a := 0; a < m; a++ {
					for b := 0; b < m; b++ {
						for c := 0; c < m; c++ {
							for d := 0; d < m; d++ {
								c06Check(t, "a∘((b∘c)∘d)", &c06Node{op: op, l: leaf(a), r: &c06Node{op: o3, l: &c06Node{op: o2, l: leaf(b), r: leaf(c)}, r: leaf(d)}})
								c06Check(t, "((a∘b)∘c)∘d", &c06Node{op: op, l: &c06Node{op: o3, l: &c06Node{op: o2, l: leaf(a), r: leaf(b)}, r: leaf(c)}, r: leaf(d)})
								c06Check(t, "a∘(b∘(c∘d))", &c06Node{op: op, l: leaf(a), r: &c06Node{op: o2, l: leaf(b), r: &c06Node{op: o3, l: leaf(c), r: leaf(d)}}})
							}
						}
					}
				}
			}
		}
	case "N": // negation mixed in
		for a := 0; a < n; a++ {
			for b := 0; b < n; b++ {
				c06Check(t, "!a∘b", &c06Node{op: op, l: &c06Node{op: "!", l: leaf(a)}, r: leaf(b)})
				c06Check(t, "a∘!b", &c06Node{op: op, l: leaf(a), r: &c06Node{op: "!", l: leaf(b)}})
				c06Check(t, "!(a∘b)", &c06Node{op: "!", l: &c06Node{op: op, l: leaf(a), r: leaf(b)}})
			}
		}
	}
}

// c06Spellings: the value of a numeric literal does not depend on what is written right after it.
func c06Spellings(t *engine.T) {
	// literals that are spelled with the same characters but are of different kinds keep their kinds, in either order
	for _, c := range []struct{ src, want string }{
		{`<%= 1 + "1" %>`, "ERR"}, {`<%= "1" + 1 %>`, "11"}, {`<%= 1 == "1" %>`, "ERR"}, {`<%= 2 * 3 - "2" %>`, "ERR"}, {`<%= "1" + 1 * 2 %>`, "12"},
		{`<%= "2" + 2 %>|<%= 2 + 2 %>|<%= "2" + "2" %>`, "22|4|22"}, {`<%= 2 + 2 %>|<%= "2" + 2 %>`, "4|22"}, {`<%= 1.5 + 1.5 %>|<%= "1.5" + 1.5 %>`, "3|1.51.5"},
		{`<%= "1.5" + 1.5 %>|<%= 1.5 + 1.5 %>`, "1.51.5|3"}, {`<%= "true" + true %>|<%= true && true %>`, "truetrue|true"}, {`<%= true && true %>|<%= "true" + "!" %>`, "true|true!"},
		{`<%= "nil" + "x" %>|<%= nil == nil %>`, "nilx|true"}, {"<%= `7` + 7 %>|<%= 7 + 7 %>|<%= \"7\" + 7 %>", "77|14|77"}, {`<% let a = 3 %><% let b = "3" %><%= a + a %>|<%= b + b %>|<%= b + a %>`, "6|33|33"},
	} {
		c := c
		t.Case("same-spelling literals "+q(c.src), true, func() (string, *engine.Fail) {
			out, err := Render(c.src, plush.NewContext())
			if c.want == "ERR" {
				if err == nil {
					return "", engine.Failf("mismatch", "reference: error (operand-type mismatch); got output %q", out)
				}
				return "error", nil
			}
			if err != nil || out != c.want {
				return "", engine.Failf("mismatch", "expected %q, got %q / %v", c.want, out, err)
			}
			return "value", nil
		})
	}
	// integer comparison and arithmetic are exact at every magnitude
	for _, c := range []struct{ src, want string }{
		{`<%= 9007199254740993 == 9007199254740992 %>`, "false"}, {`<%= 9007199254740993 > 9007199254740992 %>`, "true"}, {`<%= 9007199254740993 != 9007199254740992 %>`, "true"},
		{`<%= 9223372036854775806 < 9223372036854775807 %>`, "true"}, {`<%= 9223372036854775807 <= 9223372036854775806 %>`, "false"}, {`<%= 9223372036854775807 >= 9223372036854775807 %>`, "true"},
		{`<%= 9007199254740992 + 1 %>`, "9007199254740993"}, {`<%= 9007199254740993 - 1 == 9007199254740992 %>`, "true"}, {`<%= 4611686018427387904 / 2 * 2 == 4611686018427387904 %>`, "true"},
		{`<%= 9007199254740993 / 3 %>`, "3002399751580331"}, {`<%= 3037000499 * 3037000499 %>`, "9223372030926249001"}, {`<%= 1000000007 * 1000000009 > 1000000007 * 1000000008 %>`, "true"},
	} {
		c := c
		t.Case("big integers "+q(c.src), true, func() (string, *engine.Fail) {
			out, err := Render(c.src, plush.NewContext())
			if err != nil || out != c.want {
				return "", engine.Failf("mismatch", "expected %q, got %q / %v", c.want, out, err)
			}
			return "value", nil
		})
	}
	// float comparison and arithmetic are float64's own, exactly: no tolerance, no rounding of operands
	fls := []string{"0.1", "0.2", "0.3", "0.7", "1.1", "0.30000000000000004", "0.3333333333", "1.0", "3.0", "0.0000000001", "100000000.1"}
	for _, a := range fls {
		for _, b := range fls {
			for _, c := range fls {
				a, b, c := a, b, c
				fa, _ := strconv.ParseFloat(a, 64)
				fb, _ := strconv.ParseFloat(b, 64)
				fc, _ := strconv.ParseFloat(c, 64)
				src := `<%= ` + a + ` + ` + b + ` == ` + c + ` %>|<%= ` + a + ` + ` + b + ` != ` + c + ` %>|<%= ` + a + ` + ` + b + ` > ` + c + ` %>|<%= ` + a + ` + ` + b + ` <= ` + c + ` %>|<%= ` + a + ` / ` + b + ` == ` + c + ` %>|<%= ` + a + ` * ` + b + ` == ` + c + ` %>|<%= ` + a + ` - ` + b + ` == ` + c + ` %>`
				want := fmt.Sprintf("%v|%v|%v|%v|%v|%v|%v", fa+fb == fc, fa+fb != fc, fa+fb > fc, fa+fb <= fc, fa/fb == fc, fa*fb == fc, fa-fb == fc)
				t.Case("float exactness "+q(src), true, func() (string, *engine.Fail) {
					out, err := Render(src, plush.NewContext())
					if err != nil || out != want {
						return "", engine.Failf("mismatch", "reference (float64): %q, got %q / %v", want, out, err)
					}
					return "value", nil
				})
			}
		}
	}
	// ~= is a regular-expression match of the right operand's text against the left string
	for _, c := range []struct{ s, re string }{
		{"abc", "x|b"}, {"abc", "x|y"}, {"abc", "a|b|c"}, {"a|b", "a|b"}, {"abc", "b"}, {"abc", "^b"}, {"abc", "^a"}, {"abc", "c$"}, {"abc", "a.c"}, {"a.c", "a.c"}, {"abc", "a\\.c"},
		{"abc", "ab+c"}, {"abbc", "ab+c"}, {"ab+c", "ab+c"}, {"abc", "[b]"}, {"abc", "a(b)c"}, {"abc", "(?i)B"}, {"abc", "ab{1}c"}, {"abc", "ab?c"}, {"ac", "ab?c"}, {"abc", "a*"}, {"", ""}, {"abc", ""},
		{"abc", "B"}, {"a b", "a b"}, {"a\tb", "\\t"}, {"abc", "\\w+"}, {"123", "^\\d+$"}, {"12a", "^\\d+$"},
	} {
		c := c
		src := `<%= "` + c.s + `" ~= "` + c.re + `" %>|<% let p = "` + c.re + `" %><%= "` + c.s + `" ~= p %>|<%= "` + c.s + `" ~= "" + p %>`
		t.Case("regex match "+q(src), true, func() (string, *engine.Fail) {
			// what the template's literals denote: only \" is an escape, so \\ stays two characters
			subj, pat := c.s, c.re
			want := "error"
			if re, err := regexp.Compile(pat); err == nil {
				want = fmt.Sprint(re.MatchString(subj))
				want = want + "|" + want + "|" + want
			}
			out, err := Render(src, plush.NewContext())
			if want == "error" {
				if err == nil {
					return "", engine.Failf("mismatch", "pattern does not compile, got %q", out)
				}
				return "error", nil
			}
			if err != nil || out != want {
				return "", engine.Failf("mismatch", "expected %q, got %q / %v", want, out, err)
			}
			return "value", nil
		})
	}
	// string + x concatenates the printed form of x: the form an output tag prints for x
	for _, f := range []string{"1000000.0", "0.00001", "123456789.5", "100000.0", "1.5", "2.0", "0.1", "1000000", "0", "true", "false", "1000.0 * 1000.0", "1.0 / 3.0", "0.00001 * 0.5", "2 * 3", "7 / 2"} {
		src := `<%= "v=" + ` + f + ` %>|<%= "" + ` + f + ` + "" %>`
		solo := `<%= ` + f + ` %>`
		t.Case("printed-form "+q(src), true, func() (string, *engine.Fail) {
			printed, err := Render(solo, plush.NewContext())
			if err != nil {
				return "", engine.Failf("mismatch", "%s fails: %v", solo, err)
			}
			out, err := Render(src, plush.NewContext())
			want := "v=" + printed + "|" + printed
			if err != nil || out != want {
				return "", engine.Failf("mismatch", "expected %q (the printed form of the operand is %q), got %q / %v", want, printed, out, err)
			}
			return "printed-form", nil
		})
	}
	lits := []struct {
		src string
		val interface{}
	}{{"5", 5}, {"05", 5}, {"0.5", 0.5}, {".5", 0.5}, {"2.0", 2.0}, {"10.25", 10.25}, {".25", 0.25}}
	for _, a := range lits {
		for _, b := range lits {
			for _, op := range []string{"+", "*", "/", "<", "==", ">"} {
				var vis []int
				var werr error
				want := c06Eval(&c06Node{op: op, l: &c06Node{leaf: c06Leaf{a.src, a.val}}, r: &c06Node{leaf: c06Leaf{b.src, b.val}, id: 1}}, &vis)
				switch e := want.(type) {
				case c06Err:
					werr = fmt.Errorf("%v", e)
				case c06Unspec:
					continue
				}
				forms := []string{
					`<%= ` + a.src + ` ` + op + ` ` + b.src + ` %>`,
					`<%= ` + a.src + op + b.src + ` %>`,
					`<%= (` + a.src + `)` + op + `(` + b.src + `) %>`,
					`<%= [` + a.src + `,` + b.src + `][0] ` + op + ` [` + a.src + `,` + b.src + `][1] %>`,
					`<%= ` + a.src + op + b.src + `%>`,
				}
				for _, src := range forms {
					t.Case("spelling "+q(src), true, func() (string, *engine.Fail) {
						out, err := Render(src, plush.NewContext())
						if werr != nil {
							if err == nil {
								return "", engine.Failf("mismatch", "expected an error (%v), got %q", werr, out)
							}
							return "error", nil
						}
						if err != nil {
							return "", engine.Failf("mismatch", "expected %v, got error %v", want, err)
						}
						if out != fmt.Sprint(want) {
							return "", engine.Failf("mismatch", "expected %v, got %q", want, out)
						}
						return "value", nil
					})
				}
			}
		}
	}
}
