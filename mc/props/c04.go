package props

import (
	"fmt"
	"github.com/gobuffalo/plush/v5/helpers/helptest"
	"html/template"
	"math"
	"sort"
	"strings"
	"time"

	"verifmc/engine"

	plush "github.com/gobuffalo/plush/v5"
)

// C04 — evaluation is total.

type kval struct {
	name string
	mk   func() interface{}
}

// c04Pool: one representative per value kind that selects a different code path.
var c04Pool = []kval{
	{"k_nil", func() interface{} { return nil }},
	{"k_t", func() interface{} { return true }},
	{"k_f", func() interface{} { return false }},
	{"k_i0", func() interface{} { return 0 }},
	{"k_i1", func() interface{} { return 1 }},
	{"k_in", func() interface{} { return -1 }},
	{"k_imax", func() interface{} { return int(^uint(0) >> 1) }},
	{"k_i8", func() interface{} { return int8(3) }},
	{"k_i64", func() interface{} { return int64(4) }},
	{"k_u", func() interface{} { return uint(5) }},
	{"k_u8", func() interface{} { return uint8(6) }},
	{"k_f32", func() interface{} { return float32(1.5) }},
	{"k_f64", func() interface{} { return 2.5 }},
	{"k_se", func() interface{} { return "" }},
	{"k_s", func() interface{} { return "a" }},
	{"k_html", func() interface{} { return template.HTML("<b>") }},
	{"k_sl0", func() interface{} { return []int{} }},
	{"k_sl", func() interface{} { return []int{1, 2} }},
	{"k_nsl", func() interface{} { var s []int; return s }},
	{"k_ss", func() interface{} { return []string{"a", "b"} }},
	{"k_si", func() interface{} { return []interface{}{1, "a", nil} }},
	{"k_arr", func() interface{} { return [2]int{7, 8} }},
	{"k_parr", func() interface{} { return &[2]int{7, 8} }},
	{"k_psl", func() interface{} { return &[]int{1, 2} }},
	{"k_msi", func() interface{} { return map[string]int{"a": 1} }},
	{"k_mis", func() interface{} { return map[int]string{1: "a"} }},
	{"k_mii", func() interface{} { return map[interface{}]interface{}{"a": 1, 1: "a"} }},
	{"k_mss", func() interface{} { return map[string]string{"a": "b"} }},
	{"k_nm", func() interface{} { var m map[string]int; return m }},
	{"k_st", func() interface{} { return *newPerson() }},
	{"k_pst", func() interface{} { return newPerson() }},
	{"k_npst", func() interface{} { var p *Person; return p }},
	{"k_fn0", func() interface{} { return func() string { return "f0" } }},
	{"k_fn1", func() interface{} { return func(i int) int { return i + 1 } }},
	{"k_fnv", func() interface{} { return func(is ...int) int { return len(is) } }},
	{"k_fnvi", func() interface{} { return func(is ...interface{}) int { return len(is) } }},
	{"k_fnm", func() interface{} { return func(s string, m map[string]interface{}) string { return s } }},
	{"k_nfn", func() interface{} { var f func(); return f }},
	{"k_it", func() interface{} { return &countIter{max: 2} }},
	{"k_ch", func() interface{} { return make(chan int) }},
	{"k_tm", func() interface{} { return fixedTime }},
	{"k_err", func() interface{} { return ErrSentinel }},
	{"k_pi", func() interface{} { i := 9; return &i }},
	{"k_sid", func() interface{} { return WithSliceID{[]int{1}} }},
	{"k_sslug", func() interface{} { return &WithMapSlug{map[string]int{"a": 1}} }},
	{"k_sidn", func() interface{} { return WithAnyID{nil} }},
	{"k_sidf", func() interface{} { return WithAnyID{func() {}} }},
	{"k_slst", func() interface{} { return []interface{}{WithSliceID{nil}, "x", nil} }},
	{"k_sstr", func() interface{} { return []fmt.Stringer{fixedTime} }},      // slice of a non-empty interface type
	{"k_nptm", func() interface{} { var p *time.Time; return p }},            // typed nil *time.Time
	{"k_nstr", func() interface{} { var p *ValStringer; return p }},          // typed nil pointer whose type has a value-receiver String
	{"k_emb", func() interface{} { return WithNilEmbedded{} }},               // field promoted through a nil embedded pointer
	{"k_mnan", func() interface{} { return map[float64]int{math.NaN(): 1} }}, // NaN key
	{"k_nhtm", func() interface{} { var p *htmler; return p }},               // typed nil pointer implementing HTMLer by value
	{"k_nids", func() interface{} { var p *IDList; return p }},               // typed nil pointer to a named slice type with a value-receiver method
	{"k_ids", func() interface{} { return &IDList{1, 2} }},
	{"k_mb", func() interface{} { return "日本語日本語" }},                                                   // multi-byte text
	{"k_cyr", func() interface{} { return "абвгдежзийклмнопрстуфхцчшщъыьэюя" }},                        // >50 bytes, <50 runes
	{"k_embid", func() interface{} { return WithNilEmbeddedID{} }},                                     // embeds a nil pointer whose type has ID / Slug fields (pathFor)
	{"k_fnhc", func() interface{} { return func(h NamedHelperContext) string { return "hc" } }},        // parameter convertible to, but not assignable from, plush.HelperContext
	{"k_fnwide", func() interface{} { return func(h WideHelperContext) string { return "wide" } }},     // an interface that plush.HelperContext does not satisfy although it embeds the helper-context methods
	{"k_fnphc", func() interface{} { return func(h *plush.HelperContext) string { return "phc" } }},    // pointer to the helper context: implements the interface, neither assignable nor convertible
	{"k_pit", func() interface{} { return &PanicIter{} }},                                              // an Iterator whose Next panics on its second call
	{"k_stack", func() interface{} { return &IntStack{1, 2, 3, 4, 5} }},                                // a pointer to a slice with methods that change its length
	{"k_void", func() interface{} { return func(s string) {} }},                                        // a Go function without results
	{"k_fnverr", func() interface{} { return func() (string, c04ValErr) { return "v", c04ValErr{} } }}, // last result: a struct type that implements error by value
	{"k_fnerrno", func() interface{} { return func() c04Errno { return 0 } }},                          // only result: a named int that implements error
	{"k_fnerrno1", func() interface{} { return func(s string) (string, c04Errno) { return s, 3 } }},    // ... non-zero, after a value
	{"k_fnerrs", func() interface{} { return func() (string, c04Errs) { return "v", nil } }},           // a nil slice type that implements error
	{"k_fnerrf", func() interface{} { return func() (string, c04ErrFunc) { return "v", nil } }},        // a nil func type that implements error
	{"k_valerrer", func() interface{} { return c04ValErrer{} }},                                        // methods with such results
	{"k_voider", func() interface{} { return Voider{} }},                                               // a value with a method without results
	{"k_embs", func() interface{} { return WithNilStringer{} }},                                        // String() promoted through a nil embedded pointer
	{"k_embsi", func() interface{} { return &WithNilStringerIface{} }},                                 // String() of a nil embedded interface
	{"k_fnhc2", func() interface{} {
		return func(s string, m map[string]interface{}, h NamedHelperContext) string { return s }
	}},
}

// expression-produced kinds (cannot be injected as data)
var c04Exprs = []string{
	`fn(a) { return a }`,
	`uf(1)`,
	`(k_sl + 1)`,
	`[1, "a"]`,
	`{"a": 1}`,
	`1`, `"a"`, `2.5`, `true`, `nil`, `nope`,
}

func c04Context() *plush.Context {
	c := plush.NewContext()
	for _, k := range c04Pool {
		c.Set(k.name, k.mk())
	}
	c.Set("partialFeeder", func(name string) (string, error) {
		switch name {
		case "p":
			return "P<%= k_s %>", nil
		case "pfor":
			return `<%= for (v) in k_sl { %><%= v %><% } %>`, nil
		case "pidx":
			return `<%= k_pst.Kids[0].Name %><%= k_si[1] %>`, nil
		case "pchain":
			return `<%= k_pst.Self().Name %><%= k_pst.GetKids()[0].Name %>`, nil
		case "pfn":
			return `<% let g = fn(a) { return a } %><%= g(k_s) %><%= if (k_t) { %>y<% } %>`, nil
		}
		return "", fmt.Errorf("no partial %q", name)
	})
	return c
}

const c04Prelude = `<% let uf = fn(a) { return a } %><% let apd = k_sl + 1 %>`

func c04Atoms() []string {
	var a []string
	for _, k := range c04Pool {
		a = append(a, k.name)
	}
	return append(a, c04Exprs...)
}

var c04Ops = []string{"+", "-", "*", "/", "<", "<=", ">", ">=", "==", "!=", "~=", "&&", "||"}

func c04Case(t *engine.T, desc, src string) {
	t.Case(desc+" "+q(src), true, func() (string, *engine.Fail) {
		out, err := Render(src, c04Context())
		if f := Totality(out, err); f != nil {
			return "", f
		}
		if err != nil {
			return "error", nil
		}
		return "ok", nil
	})
}

func c04HelperNames() []string {
	var names []string
	for k := range plush.Helpers.All() {
		names = append(names, k)
	}
	sort.Strings(names)
	return names
}

func init() {
	engine.Register(&engine.Prop{
		ID: "C04",
		Shards: func(th bool) []string {
			s := []string{"unary", "index", "member", "for", "userfn", "context", "poly", "keywords"}
			for _, op := range c04Ops {
				s = append(s, "bin:"+op)
			}
			for i := range c04Atoms() {
				s = append(s, fmt.Sprintf("idxw:%d", i), fmt.Sprintf("call:%d", i))
			}
			for _, h := range c04HelperNames() {
				s = append(s, "helper:"+h)
			}
			if th {
				for _, op := range c04Ops {
					s = append(s, "nest:"+op)
				}
			}
			return s
		},
		Run:  c04Run,
		Rule: "matrices over a pool of 61 injected value kinds (nil, bools, every int/uint/float width, strings, HTML, slices/arrays/pointers to them, maps of 5 key/value typings, nil map/slice/pointer/func, struct, funcs incl. variadic, iterator, chan, time, error) plus 11 expression-produced kinds (user function object, its call, slice+x, array/hash literal, literals, unknown identifier): (operator x L x R), !L / if(L) / emission / silent statement, L[I] (+ .Field/.Method tails), L[I]=V (all triples), member and method access incl. nil receivers, for over L, L(args<=3), user functions with p params x a args (0..4), and every built-in helper taken from plush.Helpers at run time x argument lists of length <=2 (+block, +options map). Oracle: (out,nil) or (\"\",err); no panic, no step-budget exhaustion, no worker crash. All cases are non-trivial (each is a distinct kind combination). (context) 12 programs rendered with a foreign hctx.Context (helptest) and with NewContextWith(nil). (poly) one field / method / indexed path node evaluated with receivers of different struct types (mixed slice, consecutive executions of one parsed template). (text-ending) templates whose text ends inside an escape or a tag opener. (shrinking) loops over a pointer to a slice whose body pops / pushes elements through methods. (void) a field / index / method / call / loop directly after a Go function or method that returns nothing. (keywords) 14 tokens that start no expression in 19 expression positions (hash key / value, array element, argument, index, assignment value, operand, condition, iterable).",
		Bound: func(th bool) string {
			if th {
				return "all matrices complete; plus one level of nesting (L op R) op' X for every operator pair over the pool"
			}
			return "all first-level matrices complete"
		},
	})
}

func c04Run(t *engine.T, shard string) {
	atoms := c04Atoms()
	kind, arg, _ := strings.Cut(shard, ":")
	P := c04Prelude
	switch kind {
	case "bin":
		for _, l := range atoms {
			for _, r := range atoms {
				c04Case(t, "bin", P+`<%= `+l+` `+arg+` `+r+` %>`)
			}
		}
	case "nest":
		for _, l := range atoms {
			for _, r := range atoms {
				for _, op2 := range c04Ops {
					c04Case(t, "nest", P+`<%= (`+l+` `+arg+` `+r+`) `+op2+` k_i1 %>`)
					c04Case(t, "nest", P+`<%= k_s `+op2+` (`+l+` `+arg+` `+r+`) %>`)
				}
			}
		}
	case "context":
		// Render / Exec accept any hctx.Context: with one that is not plush's own, or a plush context built
		// from a nil map, execution still returns output or an error
		srcs := []string{
			`plain <%= s %>`, `<%= for (v) in xs { %><%= v %><% } %>`, `<%= ps[0].Name %>`, `<%= ps[0].Hello() %>`, `<%= mk().Name %>`,
			`<%= mk().Kids[0].Name %>`, `<% let a = [1, 2] %><% a[0] = 3 %><%= a %>`, `<% let f = fn(x) { return x + 1 } %><%= f(1) %>`,
			`<%= if (s) { %>y<% } else { %>n<% } %>`, `<%= s + "x" %>|<%= xs[1] %>`, `<% let h = {"k": 1} %><%= h["k"] %>`, `<%= nope %>`,
		}
		t.Case("context NewContextWithOuter with nil data", true, func() (string, *engine.Fail) {
			c := plush.NewContextWithOuter(nil, plush.NewContext())
			c.Set("s", "S")
			out, err := plush.Render(`a<%= s %>b`, c)
			if f := Totality(out, err); f != nil {
				return "", f
			}
			return "ok", nil
		})
		t.Case("context BuffaloRenderer with nil data", true, func() (string, *engine.Fail) {
			out, err := plush.BuffaloRenderer(`a<%= h() %>b`, nil, map[string]interface{}{"h": func() string { return "H" }})
			if f := Totality(out, err); f != nil {
				return "", f
			}
			if err != nil || out != "aHb" {
				return "", engine.Failf("mismatch", "expected aHb, got %q / %v", out, err)
			}
			return "ok", nil
		})
		for _, src := range srcs {
			src := src
			for _, kind := range []string{"helptest", "nil-map"} {
				kind := kind
				t.Case("context "+kind+" "+q(src), true, func() (string, *engine.Fail) {
					plush.CacheEnabled = false
					var out string
					var err error
					p := Person{Name: "N", Kids: []Person{{Name: "K"}}}
					if kind == "helptest" {
						hc := helptest.NewContext()
						hc.Set("s", "S")
						hc.Set("xs", []int{1, 2})
						hc.Set("ps", []Person{p})
						hc.Set("mk", func() Person { return p })
						out, err = plush.Render(src, hc)
					} else {
						c := plush.NewContextWith(nil)
						c.Set("s", "S")
						c.Set("xs", []int{1, 2})
						c.Set("ps", []Person{p})
						c.Set("mk", func() Person { return p })
						out, err = plush.Render(src, c)
					}
					if f := Totality(out, err); f != nil {
						return "", f
					}
					if err != nil {
						return "error", nil
					}
					return "ok", nil
				})
			}
		}
	case "keywords":
		// a keyword (or other token that starts no expression) in an expression position: a syntax error or a
		// run-time error, never a panic on the nil the parser is left with
		kws := []string{"let", "return", "in", "else", "break", "continue", "%>", ")", "]", "}", ",", ":", "=", "=="}
		holes := []struct{ pre, post string }{
			{`<%= {`, `: 1} %>`}, {`<%= {"a": `, `} %>`}, {`<%= {"a": 1, `, `: 2} %>`}, {`<% let h = {`, `: 1} %><%= h %>`}, {`<%= [`, `] %>`}, {`<%= [1, `, `] %>`},
			{`<%= len(`, `) %>`}, {`<%= k_si[`, `] %>`}, {`<% k_si[0] = `, ` %>`}, {`<% let q = `, ` %>`}, {`<%= 1 + `, ` %>`}, {`<%= `, ` + 1 %>`}, {`<%= !`, ` %>`},
			{`<%= if (`, `) { %>x<% } %>`}, {`<%= for (v) in `, ` { %>x<% } %>`}, {`<% let f = fn() { return {`, `: 1} } %><%= f() %>`}, {`<%= {(`, `): 1} %>`}, {`<%= uf(`, `) %>`}, {`<%= k_pst.Add(`, `) %>`},
		}
		for _, kw := range kws {
			for _, h := range holes {
				c04Case(t, "keyword", P+h.pre+kw+h.post)
			}
		}
		// literal text ending in the first bytes of an escape or a tag
		for _, src := range []string{"a \\<", "\\<", "a\\", "<", "a<", "\\<%", "a\\<%", "\\\\<", "\\\\<%", "<%= 1 %>\\<", "<%= 1 %>\\", "<% let a = 1 %>\\<%", "a\\<\\<", "<%", "<%=", "a<%#"} {
			c04Case(t, "text-ending", src)
		}
		// bytes outside ASCII wherever a template can carry them: comment tags, line comments, string literals,
		// text, identifier and operator positions, hash keys, partial names, data under such keys
		for _, hb := range []string{"\x80", "é", "\xff", "世", "\xc3", "\xf0\x9f\x98\x80", "\x7f", "\x00"} {
			for _, h := range []struct{ pre, post string }{
				{`<%# caf`, ` %>ok`}, {`<%#`, `%>ok`}, {"<% # ", "\n %>ok"}, {`<%= "`, `" %>`}, {"<%= `", "` %>"}, {`a`, `b<%= 1 %>`}, {`<%= `, ` %>`}, {`<%= k_si`, ` %>`},
				{`<%= 1 `, ` 2 %>`}, {`<%= {"`, `": 1} %>`}, {`<%= k_mss["`, `"] %>`}, {`<% let `, ` = 1 %>`}, {`<%= k_pst.`, ` %>`}, {`<%= uf("`, `") %>`}, {`<%= len("`, `") %>`},
				{`<%= for (`, `) in k_si { %>x<% } %>`}, {`<%= if (`, `) { %>x<% } %>`}, {`<%= truncate("`, `", {"size": 1}) %>`}, {`<%= 1`, ` %>`}, {`<%`, `= 1 %>`}, {`<`, `%= 1 %>`}, {`<%= 1 %`, `>`},
			} {
				c04Case(t, "high-byte", P+h.pre+hb+h.post)
			}
		}
		// a loop over a pointer to a slice whose body shortens / lengthens that slice through a method
		for _, src := range []string{
			`<%= for (v) in k_stack { %><%= k_stack.Pop() %>,<% } %>`, `<%= for (i, v) in k_stack { %><%= k_stack.Pop() %><%= k_stack.Pop() %>,<% } %>`,
			`<%= for (v) in k_stack { %><% k_stack.Push(v) %><%= if (v > 20) { break } %><% } %>`, `<%= for (v) in k_stack { %><%= for (w) in k_stack { %><%= k_stack.Pop() %><% } %><% } %>`,
		} {
			c04Case(t, "shrinking", P+src)
		}
		// a path, an index or a call directly after a call that returns nothing
		for _, src := range []string{
			`<%= k_void("x").Name %>`, `<%= k_void("x")[0] %>`, `<%= k_void("x").Names[0] %>`, `<%= k_void("x").Hello() %>`, `<%= k_void("x")("y") %>`, `<%= k_void("x") %>`, `<% let q = k_void("x").Name %>`,
			`<%= k_voider.Touch().Name %>`, `<%= k_voider.Touch()[0] %>`, `<%= k_voider.Touch() %>`, `<%= k_voider.Touch().Touch() %>`, `<%= for (v) in k_void("x").Items { %>x<% } %>`, `<%= if (k_void("x").Ok) { %>y<% } %>`,
			`<%= k_si[0].Name %>|<%= k_void("x").Name %>`, `<%= uf(k_void("x")).Name %>`,
			`<%= k_fnverr() %>`, `<%= k_fnerrno() %>`, `<%= k_fnerrno1("x") %>`, `<%= k_fnerrs() %>`, `<%= k_fnerrf() %>`, `<%= k_valerrer.Check() %>`, `<%= k_valerrer.Code(2) %>`, `<%= k_fnverr().Name %>`, `<% let q = k_fnerrno() %>`,
			`<%= if (k_fnverr()) { %>y<% } %>`, `<%= for (v) in k_valerrer.Check() { %>x<% } %>`, `<%= k_valerrer.Code(0) + 1 %>`,
		} {
			c04Case(t, "void", P+src)
		}
	case "poly":
		// one node, receivers of different struct types (loop over a mixed slice / consecutive executions)
		for _, pc := range PolyCases() {
			pc := pc
			t.Case("poly "+pc.Name+" "+q(pc.Src), true, func() (string, *engine.Fail) {
				out, err := RunPoly(pc)
				if f := Totality(out, err); f != nil {
					return "", f
				}
				if err != nil {
					return "error", nil
				}
				return "ok", nil
			})
		}
	case "unary":
		for _, l := range atoms {
			c04Case(t, "not", P+`<%= !`+l+` %>`)
			c04Case(t, "if", P+`<%= if (`+l+`) { %>T<% } else { %>F<% } %>`)
			c04Case(t, "emit", P+`<%= `+l+` %>`)
			c04Case(t, "silent", P+`<% `+l+` %>`)
			c04Case(t, "let", P+`<% let z = `+l+` %><%= z %>`)
			c04Case(t, "assign", P+`<% k_i1 = `+l+` %><%= k_i1 %>`)
			c04Case(t, "return", P+`<% let g = fn() { return `+l+` } %><%= g() %>`)
			c04Case(t, "arr", P+`<%= [`+l+`, `+l+`] %>`)
			c04Case(t, "hash", P+`<%= {"a": `+l+`} %>`)
			c04Case(t, "paren", P+`<%= (`+l+`) %>`)
			c04Case(t, "neg", P+`<%= -`+l+` %>`)
		}
		// every construct class inside a partial body (the partial runs on its own evaluator/context)
		for _, pn := range []string{"p", "pfor", "pidx", "pchain", "pfn"} {
			c04Case(t, "partial-body", P+`<%= partial("`+pn+`") %>|<%= partial("`+pn+`", {"k_s": "z"}) %>|<%= partial("`+pn+`", {"layout": "p"}) %>`)
			c04Case(t, "partial-body-in-for", P+`<%= for (q) in k_sl { %><%= partial("`+pn+`") %><% } %>`)
		}
	case "index":
		for _, l := range atoms {
			for _, i := range atoms {
				c04Case(t, "idx", P+`<%= `+l+`[`+i+`] %>`)
				c04Case(t, "idx.f", P+`<%= `+l+`[`+i+`].Name %>`)
				c04Case(t, "idx.m", P+`<%= `+l+`[`+i+`].Hello() %>`)
				c04Case(t, "idx.idx", P+`<%= `+l+`[`+i+`][0] %>`)
			}
		}
	case "idxw":
		var li int
		fmt.Sscan(arg, &li)
		l := atoms[li]
		for _, i := range atoms {
			for _, v := range atoms {
				if l == v && (l == "k_si" || l == "k_slst") {
					// a []interface{} stored into itself and then emitted: see known_findings.txt
					t.Pattern = "cyclic-slice-emit"
				}
				c04Case(t, "idxw", P+`<% `+l+`[`+i+`] = `+v+` %><%= `+l+` %>`)
			}
		}
	case "member":
		members := []string{"X", "Name", "Kid", "NilKid", "Kids", "hidden", "Missing", "Hello", "PtrHello", "Kid.Name", "NilKid.Name", "Kid.Kid.Name", "Kids.Name", "Attrs.k"}
		calls := []string{"Hello()", "PtrHello()", "Add(1)", "Add()", "Add(k_s)", "Add(1, 2)", "Missing()", "hidden()", "Name()", "Self().Name", "Self().Hello()", "Fail()", "GetKids()[0].Name", "Kid.Hello()", "NilKid.Hello()", "NilKid.PtrHello()", "Len()", "Next()", "Error()", "String()", "Unix()", "Count()", "HTML()"}
		for _, m := range []string{"Index(5)", "Index(0)", "Elem()", "Len()", "Interface()", "IsNil()", "Field(0)", "Name", "Kind()"} {
			// the result of slice + x: must not expose reflect.Value's own (panicking) methods
			c04Case(t, "appended-slice-method", P+`<%= apd.`+m+` %>`)
			c04Case(t, "appended-slice-method", P+`<%= (k_ss + "z").`+m+` %>`)
		}
		c04Case(t, "appended-slice", P+`<%= apd %>|<%= apd + 2 %>|<%= len(apd) %>|<%= apd[2] %>|<%= for (v) in apd { %><%= v %><% } %>`)
		for _, l := range c04Pool {
			for _, m := range members {
				c04Case(t, "member", P+`<%= `+l.name+`.`+m+` %>`)
				c04Case(t, "member-if", P+`<%= if (`+l.name+`.`+m+`) { %>T<% } %>`)
			}
			for _, m := range calls {
				c04Case(t, "method", P+`<%= `+l.name+`.`+m+` %>`)
			}
		}
	case "for":
		for _, l := range atoms {
			c04Case(t, "for-kv", P+`<%= for (k, v) in `+l+` { %>[<%= k %>=<%= v %>]<% } %>`)
			c04Case(t, "for-v", P+`<%= for (v) in `+l+` { %><%= v %><% } %>`)
			c04Case(t, "for-none", P+`<%= for () in `+l+` { %>x<% } %>`)
			c04Case(t, "for-brk", P+`<%= for (v) in `+l+` { %>x<% break %>y<% } %>`)
			c04Case(t, "for-nested", P+`<%= for (v) in `+l+` { %><%= for (w) in v { %><%= w %><% } %><% } %>`)
		}
	case "call":
		var li int
		fmt.Sscan(arg, &li)
		l := atoms[li]
		if strings.HasPrefix(l, "fn(") {
			l = "(" + l + ")"
		}
		c04Case(t, "call0", P+`<%= `+l+`() %>`)
		c04Case(t, "call0-blk", P+`<%= `+l+`() { %>B<% } %>`)
		for _, a := range atoms {
			c04Case(t, "call1", P+`<%= `+l+`(`+a+`) %>`)
			for _, b := range atoms {
				c04Case(t, "call2", P+`<%= `+l+`(`+a+`, `+b+`) %>`)
			}
		}
		for _, a := range []string{"k_nil", "k_i1", "k_s", `{"a": 1}`} {
			c04Case(t, "call3", P+`<%= `+l+`(`+a+`, `+a+`, `+a+`) %>`)
		}
	case "userfn":
		params := []string{"", "a", "a, b", "a, b, c", "a, b, c, d"}
		for pi, ps := range params {
			for na := 0; na <= 4; na++ {
				for _, av := range []string{"1", "k_nil", "nope", "k_s"} {
					args := strings.TrimSuffix(strings.Repeat(av+", ", na), ", ")
					c04Case(t, fmt.Sprintf("userfn p=%d a=%d", pi, na), `<% let g = fn(`+ps+`) { return "r" } %><%= g(`+args+`) %>`)
					c04Case(t, fmt.Sprintf("userfn-blk p=%d a=%d", pi, na), `<% let g = fn(`+ps+`) { return "r" } %><%= g(`+args+`) { %>B<% } %>`)
				}
			}
		}
		for _, body := range []string{``, `return`, `return nope`, `g()`, `let a = 1`, `break`, `continue`} {
			c04Case(t, "userfn-body", `<% let g = fn(a) { `+body+` } %><%= g(1) %>`)
		}
	case "helper":
		h := arg
		opts := []string{`{"size": k_s}`, `{"size": k_in}`, `{"trail": k_i1}`, `{"size": 2, "trail": k_nil}`, `{"layout": "p"}`, `{"layout": k_i1}`, `{"a": k_nil}`}
		c04Case(t, "helper0", `<%= `+h+`() %>`)
		c04Case(t, "helper0-blk", `<%= `+h+`() { %>B<%= k_s %><% } %>`)
		c04Case(t, "helper-silent", `<% `+h+`("c") { %>B<% } %><%= contentOf("c") %>`)
		c04Case(t, "helper-noblock-then-contentOf", `<% `+h+`("c") %><%= contentOf("c") %>|<%= contentOf("c", {"a": 1}) { %>D<% } %>`)
		c04Case(t, "helper-noblock-then-partial", `<% `+h+`("p") %><%= partial("p") %>`)
		for _, a := range append(append([]string{}, atoms...), `"p"`, `"missing"`) {
			c04Case(t, "helper1", P+`<%= `+h+`(`+a+`) %>`)
			c04Case(t, "helper1-blk", P+`<%= `+h+`(`+a+`) { %>B<% } %>`)
			for _, b := range atoms {
				c04Case(t, "helper2", P+`<%= `+h+`(`+a+`, `+b+`) %>`)
			}
			for _, o := range opts {
				c04Case(t, "helper-opt", P+`<%= `+h+`(`+a+`, `+o+`) %>`)
			}
		}
	}
}

type c04ValErr struct{ Msg string }

func (e c04ValErr) Error() string { return "valerr " + e.Msg }

type c04Errno int

func (e c04Errno) Error() string { return fmt.Sprintf("errno %d", int(e)) }

type c04Errs []error

func (e c04Errs) Error() string { return fmt.Sprintf("%d errors", len(e)) }

type c04ErrFunc func() string

func (e c04ErrFunc) Error() string { return "errfunc" }

type c04ValErrer struct{}

func (c04ValErrer) Check() (string, c04ValErr) { return "ok", c04ValErr{} }
func (c04ValErrer) Code(n int) c04Errno        { return c04Errno(n) }
