package props

import (
	"fmt"
	"html/template"
	"strings"

	"verifmc/engine"

	plush "github.com/gobuffalo/plush/v5"
)

// C18 — layout inside code tags is insignificant: whitespace, comments, tag splitting.

// Programs are written in spaced canonical form: inside a tag every token is
// separated by exactly one space (string literals contain no spaces).
var c18Programs = []string{
	`<%= 1 + 2 * 3 %>`,
	`<% let a = "q" %>[<%= a %>]`,
	`<%= ( 1 + 2 ) * ( 3 - 1 ) / 2 %>`,
	`<%= x == 1 && ! f || s ~= "^h" %>`,
	`<%= if ( x == 1 ) { %>one<% } else if ( x == 2 ) { %>two<% } else { %>many<% } %>`,
	`<%= if ( ! t ) { return "n" } else { return "y" } %>`,
	`<%= for ( i , v ) in xs { %>[<%= i %>:<%= v %>]<% } %>`,
	`<%= for ( v ) in xs { if ( v == 2 ) { continue } %><%= v %><% } %>`,
	`<%= for ( v ) in xs { %><%= v %><% if ( v == 2 ) { break } } %>`,
	`<%= for ( k , v ) in m1 { %><%= k %>=<%= v %><% } %>`,
	`<%= for ( v ) in range ( 1 , 3 ) { %><%= v %>,<% } %>`,
	`<% let g = fn ( a , b ) { return a + b } %><%= g ( 1 , 2 ) %>`,
	`<% let g = fn ( a ) { if ( a ) { return "T" } return "F" } %><%= g ( true ) %><%= g ( false ) %>`,
	`<%= [ 1 , 2 , 3 ] [ 1 ] %>|<%= { "k" : "v" } [ "k" ] %>`,
	`<% let h = { "a" : 1 , "b" : [ 2 , 3 ] } %><%= h [ "b" ] [ 0 ] %>`,
	`<%= st.Name %> <%= st.Kids [ 0 ] .Name %> <%= st.Hello ( ) %>`,
	`<%= len ( xs ) %> <%= truncate ( "abcdef" , { "size" : 4 , "trail" : "." } ) %>`,
	`<% let arr = [ 1 , 2 ] %><% arr [ 0 ] = 9 %><%= arr [ 0 ] %>`,
	`<% contentFor ( "c" ) { %>[<%= n %>]<% } %><%= contentOf ( "c" , { "n" : 7 } ) %>`,
	`<%= blk ( ) { %>in<%= x %><% } %>`,
	`<%= partial ( "p1" , { "w" : 5 } ) %>`,
	`<%= nope %>`,
	`<%= 1 + "a" %>`,
	`<% let z = 3 ; z = z + 1 ; %><%= z %>`,
	`<%= xs [ 0 ] + xs [ 1 ] * 2 - 1 %>`,
	`<% let g = fn ( a ) { return a + 1 } %><%= g ( 1 ) + 1 %>|<%= g ( 2 ) == 3 %>|<%= if ( g ( 0 ) == 1 ) { %>y<% } %>`,
	`<% let g = fn ( a ) { let t = a * 2 return t } %><%= g ( 2 ) * g ( 3 ) %>`,
	`<%= for ( v ) in xs { let w = v * 2 %><%= w + 1 %>,<% } %>`,
	// two function literals, two hash literals and two array literals in one tag (on one line in the canonical layout)
	`<% let f = fn ( x ) { return x * 2 } let g = fn ( x ) { return x + 7 } %><%= f ( 3 ) %>,<%= g ( 3 ) %>`,
	`<% let h = { "k" : 1 } let j = { "k" : 2 } let u = [ 1 ] let w = [ 2 ] %><%= h [ "k" ] %><%= j [ "k" ] %><%= u [ 0 ] %><%= w [ 0 ] %>`,
	// a hash literal that repeats a key (the last value counts, wherever the pairs stand)
	`<%= { "a" : 1 , "a" : 2 } [ "a" ] %>|<% let d = { "k" : "x" , "j" : 0 , "k" : "y" , "j" : 1 } %><%= d [ "k" ] %><%= d [ "j" ] %>`,
	// loop bodies that are exactly one statement: a block helper whose block leaves the loop / skips the iteration
	`<%= for ( v ) in xs { %><%= blk ( ) { %>[<%= v %><% if ( v == 2 ) { break } %>]<% } %><% } %>`,
	`<%= for ( v ) in xs { %><%= blk ( ) { %>[<% if ( v == 2 ) { continue } %><%= v %>]<% } %><% } %>|<%= for ( v ) in xs { blk ( ) { %><% break %><% } } %>`,
	`<%= if ( t ) { %><%= blk ( ) { %>one<% } %><% } %><%= for ( v ) in xs { %><%= if ( v == 2 ) { %><% break %><% } %><% } %>`,
}

var c18Gaps = []string{"\t", "\n", "\r\n", "  ", " # c\n", "", " # c\n # d\n", "\n\n # c\n\t# d\r\n"}

func c18Wordy(b byte) bool {
	return b == '_' || b == '-' || b == '.' || (b >= '0' && b <= '9') || (b >= 'a' && b <= 'z') || (b >= 'A' && b <= 'Z')
}

// c18CanGlue: may the gap between tokens l and r be empty without changing the tokens?
func c18CanGlue(l, r string) bool {
	if l == "" || r == "" {
		return false
	}
	a, b := l[len(l)-1], r[0]
	if c18Wordy(a) && c18Wordy(b) {
		return false
	}
	pair := string(a) + string(b)
	for _, bad := range []string{"==", "!=", "<=", ">=", "~=", "&&", "||", "<%", "%>", "%=", "%#", "=="} {
		if pair == bad {
			return false
		}
	}
	if (l == "<%" || l == "<%=") && (b == '=' || b == '#') {
		return false
	}
	if a == '"' || b == '"' || a == '`' || b == '`' {
		return true
	}
	return true
}

type c18Part struct {
	text   string   // literal text (if tokens == nil)
	tokens []string // tag tokens incl. opener and closer
}

func c18Parse(p string) []c18Part {
	var parts []c18Part
	for len(p) > 0 {
		i := strings.Index(p, "<%")
		if i < 0 {
			parts = append(parts, c18Part{text: p})
			break
		}
		if i > 0 {
			parts = append(parts, c18Part{text: p[:i]})
		}
		j := strings.Index(p[i:], "%>")
		tag := p[i : i+j+2]
		parts = append(parts, c18Part{tokens: strings.Split(tag, " ")})
		p = p[i+j+2:]
	}
	return parts
}

type c18Gap struct{ part, idx int } // gap after token idx of part

func c18AllGaps(parts []c18Part) []c18Gap {
	var gs []c18Gap
	for pi, p := range parts {
		for ti := 0; ti+1 < len(p.tokens); ti++ {
			gs = append(gs, c18Gap{pi, ti})
		}
	}
	return gs
}

// c18BlockBoundaries: gaps right after a block's opening brace and right before its closing brace.
func c18BlockBoundaries(parts []c18Part) []c18Gap {
	var out []c18Gap
	var stack []bool // true = block brace, false = hash brace
	prev := ""
	for pi, p := range parts {
		for ti, tok := range p.tokens {
			switch tok {
			case "{":
				isBlock := prev == ")" || prev == "else"
				stack = append(stack, isBlock)
				if isBlock && ti+1 < len(p.tokens) && p.tokens[ti+1] != "%>" {
					out = append(out, c18Gap{pi, ti})
				}
			case "}":
				if len(stack) > 0 {
					isBlock := stack[len(stack)-1]
					stack = stack[:len(stack)-1]
					if isBlock && ti > 0 && p.tokens[ti-1] != "<%" {
						out = append(out, c18Gap{pi, ti - 1})
					}
				}
			}
			prev = tok
		}
	}
	return out
}

func c18Build(parts []c18Part, sub map[c18Gap]string) string {
	var sb strings.Builder
	for pi, p := range parts {
		if p.tokens == nil {
			sb.WriteString(p.text)
			continue
		}
		for ti, tok := range p.tokens {
			sb.WriteString(tok)
			if ti+1 < len(p.tokens) {
				if g, ok := sub[c18Gap{pi, ti}]; ok {
					sb.WriteString(g)
				} else {
					sb.WriteString(" ")
				}
			}
		}
	}
	return sb.String()
}

func c18Context() *plush.Context {
	c := CorpusContext()
	c.Set("a", 1)
	c.Set("b", 1)
	c.Set("c", "c0")
	c.Set("f", func(i int) int { return i + 10 })
	c.Set("h", func(help plush.HelperContext) (template.HTML, error) {
		s, err := help.Block()
		return template.HTML("(" + s + ")"), err
	})
	return c
}

func c18Norm(err error) string {
	if err == nil {
		return "<nil>"
	}
	return c15LineRe.ReplaceAllString(err.Error(), "line N:")
}

func c18Same(t *engine.T, desc, canonical, variant string, nontrivial bool) {
	t.Case(desc+" "+q(variant), nontrivial, func() (string, *engine.Fail) {
		o1, e1 := Render(canonical, c18Context())
		o2, e2 := Render(variant, c18Context())
		if o1 != o2 || c18Norm(e1) != c18Norm(e2) {
			return "", engine.Failf("layout-changes-result", "canonical %q renders %q / %s; re-laid-out renders %q / %s", canonical, o1, c18Norm(e1), o2, c18Norm(e2))
		}
		if e1 != nil {
			return "same-error", nil
		}
		return "same-output", nil
	})
}

// statement sequences for tag splitting / merging ---------------------------------

var c18Stmts = []string{
	`let a = 1`,
	`a = a + 1`,
	`let b = a * 2`,
	`if (a == 2) { a = 5 }`,
	`if (a == 1) { a = 7 } else { a = 8 }`,
	`for (v) in xs { b = b + v }`,
	`for (v) in range(1, 2) { b = b + v }`,
	`for (k) in st.GetKids() { c = c + k.Name }`,
	`let f = fn(x) { return x + 1 }`,
	`b = f(a)`,
	`h() { %>text<% }`,
	`let c = "s"`,
	// output-tag blocks closed by a later tag: what follows shares the tag with the closing brace
	`%><%= if (a == 1) { %>Y<% } else { %>N<% }`,
	`%><%= for (v) in xs { %>L<% }`,
	`%><%= h() { %>B<% }`,
	`%><%= if (b) { %>T<% }`,
}

var c18Tail = `[<%= if (a) { %><%= a %><% } %>|<%= if (b) { %><%= b %><% } %>|<%= if (c) { %><%= c %><% } %>]`

func init() {
	engine.Register(&engine.Prop{
		ID: "C18",
		Shards: func(th bool) []string {
			var s []string
			for i := range c18Programs {
				s = append(s, fmt.Sprintf("gap:%d", i))
			}
			for i := range c18Stmts {
				s = append(s, fmt.Sprintf("split:%d", i))
			}
			return s
		},
		Run:  c18Run,
		Rule: "(gap) 28 programs covering every construct as token lists: every single gap between adjacent tokens of a code tag replaced by each of {tab, newline, CRLF, two spaces, ' # c\\n' line comment, two consecutive comment lines, blank lines mixed with comment lines, and the empty string where gluing cannot change the tokens ('-' and '.' adjacent to letters/digits are never glued)}; all pairs of gaps; a comment tag / line-comment tag spliced in at every statement boundary inside blocks. (split) every sequence of <=3 (4 thorough) statements from 16 (let, assignment, if, if/else, for over a variable / a helper call / a method call, fn literal, call, helper with block, and <%= if/for/helper { %> output-tag blocks closed by a later tag) x every way of cutting the sequence into <% %> tags (including a statement directly after the closing brace of if/for/fn/helper block in the same tag) x a comment tag or a # line comment inserted at each statement boundary. Oracle: output identical to the canonical layout's (one statement per tag, single spaces); errors identical after replacing 'line N:'. Non-trivial: all re-layouts. (rich comments) between any two statements, 18 comment tags / line comments (also with tag openers <% <%= <%# in the comment text) (also with %> and <% inside a line comment) whose text contains #, quotes, back-quotes, braces, <, code-like words, or is empty or multi-line: comment text is inert.",
		Bound: func(th bool) string {
			if th {
				return "gap deviations <=2; statement sequences <=4"
			}
			return "gap deviations <=2; statement sequences <=3"
		},
	})
}

func c18Run(t *engine.T, shard string) {
	kind, arg, _ := strings.Cut(shard, ":")
	var idx int
	fmt.Sscan(arg, &idx)
	switch kind {
	case "gap":
		parts := c18Parse(c18Programs[idx])
		canonical := c18Build(parts, nil)
		gaps := c18AllGaps(parts)
		alts := func(g c18Gap) []string {
			var a []string
			for _, alt := range c18Gaps {
				if alt == "" && !c18CanGlue(parts[g.part].tokens[g.idx], parts[g.part].tokens[g.idx+1]) {
					continue
				}
				a = append(a, alt)
			}
			return a
		}
		t.Case("canonical "+q(canonical), false, func() (string, *engine.Fail) {
			o, e := Render(canonical, c18Context())
			if e != nil {
				return "canonical-error", nil
			}
			_ = o
			return "canonical-ok", nil
		})
		for gi, g := range gaps {
			for _, a := range alts(g) {
				c18Same(t, fmt.Sprintf("gap1 prog=%d gap=%d alt=%q", idx, gi, a), canonical, c18Build(parts, map[c18Gap]string{g: a}), true)
				{
					for gj := gi + 1; gj < len(gaps); gj++ {
						for _, b := range alts(gaps[gj]) {
							c18Same(t, fmt.Sprintf("gap2 prog=%d gaps=%d,%d", idx, gi, gj), canonical, c18Build(parts, map[c18Gap]string{g: a, gaps[gj]: b}), true)
						}
					}
				}
			}
		}
		// a comment tag (close, comment, reopen) at every statement boundary inside blocks
		for gi, g := range c18BlockBoundaries(parts) {
			for _, ins := range []string{" %><%# c %><% ", " %><%# c\n d %><% ", " %><% # lc\n %><% "} {
				c18Same(t, fmt.Sprintf("ctag prog=%d boundary=%d", idx, gi), canonical, c18Build(parts, map[c18Gap]string{g: ins}), true)
			}
		}
		// ... and a comment tag directly after every closing delimiter (between two tags, before text, at the end)
		for i, n := 0, 0; i+2 <= len(canonical); i++ {
			if canonical[i:i+2] != "%>" {
				continue
			}
			for _, ins := range []string{"<%# c %>", "<%#%><%# d\n %>"} {
				c18Same(t, fmt.Sprintf("ctag-after-tag prog=%d tag=%d", idx, n), canonical, canonical[:i+2]+ins+canonical[i+2:], true)
			}
			n++
		}
		// all gaps at once
		for _, a := range c18Gaps[:5] {
			sub := map[c18Gap]string{}
			for _, g := range gaps {
				sub[g] = a
			}
			c18Same(t, fmt.Sprintf("gap-all prog=%d alt=%q", idx, a), canonical, c18Build(parts, sub), true)
		}
	case "split":
		maxLen := 3
		if t.Thorough {
			maxLen = 4
		}
		var rec func(seq []int)
		rec = func(seq []int) {
			c18Split(t, seq)
			if len(seq) == maxLen {
				return
			}
			for i := range c18Stmts {
				rec(append(seq[:len(seq):len(seq)], i))
			}
		}
		rec([]int{idx})
	}
}

func c18Split(t *engine.T, seq []int) {
	n := len(seq)
	var canon strings.Builder
	for _, s := range seq {
		canon.WriteString("<% " + c18Stmts[s] + " %>")
	}
	canonical := canon.String() + c18Tail
	// boundaries between statements: 0 = separate tags, 1 = same tag (space), 2 = same tag (newline),
	// 3 = comment tag between, 4 = line comment between (same tag)
	seps := []string{" %><% ", " ", "\n", " %><%# note %><% ", " # note\n "}
	total := 1
	for i := 0; i < n-1; i++ {
		total *= len(seps)
	}
	for code := 0; code < total; code++ {
		var sb strings.Builder
		sb.WriteString("<% ")
		x := code
		for i, s := range seq {
			sb.WriteString(c18Stmts[s])
			if i < n-1 {
				sb.WriteString(seps[x%len(seps)])
				x /= len(seps)
			}
		}
		sb.WriteString(" %>")
		variant := sb.String() + c18Tail
		if variant == canonical {
			continue
		}
		c18Same(t, fmt.Sprintf("split %v cut=%d", seq, code), canonical, variant, true)
	}
	if n == 2 {
		// comment text is free text: the characters that mean something in code (#, quotes, braces, <) are inert in it
		for ri, rich := range []string{
			" %><%# see issue #12 %><% ", " %><%#c#d%><% ", " %><%# say \"hi\" %><% ", " %><%# it's `x` %><% ", " %><%# a { ( [ < b %><% ", " %><%# was: <% let a = 9 %><% ", " %><%# <%= a %><% ", " %><%# <%# nested %><% ", " # was: <% let a = 9\n ", " %><%# let x = 1 %><% ",
			" %><%# one %><%# two # %><% ", " # see #12 \"q\" it's { ( <\n ", " # weight 100%> of the total\n ", " # a %> b <% c\n ", " # `\n ", " #\n ", " %><%#%><% ", " %><%# multi\n# line\n%><% ",
		} {
			c18Same(t, fmt.Sprintf("split %v rich-comment=%d", seq, ri), canonical, "<% "+c18Stmts[seq[0]]+rich+c18Stmts[seq[1]]+" %>"+c18Tail, true)
		}
	}
	if n == 1 {
		c18Same(t, fmt.Sprintf("split %v tight", seq), canonical, "<%"+c18Stmts[seq[0]]+"%>"+c18Tail, true)
		c18Same(t, fmt.Sprintf("split %v leading-comment", seq), canonical, "<%# c %><% "+c18Stmts[seq[0]]+" %><%# d %>"+c18Tail, true)
	}
}
