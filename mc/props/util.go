package props

import (
	"errors"
	"fmt"
	"html/template"
	"reflect"
	"strings"
	"time"

	"verifmc/engine"

	plush "github.com/gobuffalo/plush/v5"
	"github.com/gobuffalo/plush/v5/helpers/hctx"
)

// Render executes src on the real implementation with the cache disabled.
func Render(src string, ctx *plush.Context) (string, error) {
	plush.CacheEnabled = false
	return plush.Render(src, ctx)
}

// Totality is the generic oracle "(out, nil) or ("", err)".
func Totality(out string, err error) *engine.Fail {
	if err != nil && out != "" {
		return engine.Failf("partial-output", "error %q returned together with non-empty output %q", err.Error(), out)
	}
	return nil
}

func q(s string) string { return fmt.Sprintf("%q", s) }

func errStr(err error) string {
	if err == nil {
		return "<nil>"
	}
	return err.Error()
}

// ---------------------------------------------------------------------------
// shared data types

type Person struct {
	Name   string
	Kid    *Person
	NilKid *Person
	Kids   []Person
	Tags   []string
	Attrs  map[string]string
	hidden string
}

func (p Person) Hello() string { return "hello " + p.Name }
func (p *Person) PtrHello() string {
	if p == nil {
		return "ptr nil"
	}
	return "ptr " + p.Name
}
func (p Person) Add(a int) int         { return a + 1 }
func (p Person) Self() Person          { return p }
func (p Person) Fail() (string, error) { return "", ErrSentinel }
func (p Person) GetKids() []Person     { return p.Kids }

var ErrSentinel = errors.New("sentinel failure")

// structs whose ID/Slug fields have non-comparable or interface types (pathFor inspects them)
type WithSliceID struct{ ID []int }
type WithMapSlug struct{ Slug map[string]int }
type WithAnyID struct{ ID interface{} }

// ValStringer implements fmt.Stringer with a value receiver (a nil *ValStringer panics in Go when printed naively).
type ValStringer struct{ S string }

func (v ValStringer) String() string { return v.S }

// WithNilEmbeddedID embeds a nil pointer to a struct that has ID and Slug fields.
type BaseID struct {
	ID   int
	Slug string
}
type WithNilEmbeddedID struct{ *BaseID }

// WideHelperContext has the helper-context method set plus one more method.
type WideHelperContext interface {
	hctx.HelperContext
	Extra()
}

// NamedHelperContext is convertible to plush.HelperContext but is a different type.
type NamedHelperContext plush.HelperContext

// IDList is a named slice type with a value-receiver method.
type IDList []int

func (l IDList) Count() int { return len(l) }

// WithNilEmbedded promotes X through an embedded pointer that is nil.
type Embedded struct{ X string }

// Hello is a value-receiver method: promoted through the nil embedded pointer it cannot be called
func (e Embedded) Hello() string { return "emb " + e.X }

type WithNilEmbedded struct{ *Embedded }

// WithNilStringer promotes String() through an embedded pointer that is nil; WithNilStringerIface
// embeds a nil fmt.Stringer interface. Printing either must not panic.
type WithNilStringer struct{ *ValStringer }
type WithNilStringerIface struct{ fmt.Stringer }

// IntStack is a slice type whose pointer methods change its length.
type IntStack []int

func (s *IntStack) Pop() int {
	old := *s
	if len(old) == 0 {
		return -1
	}
	*s = old[:len(old)-1]
	return old[len(old)-1]
}

func (s *IntStack) Push(v int) int {
	if len(*s) < 40 {
		*s = append(*s, v+10)
	}
	return len(*s)
}

// Voider has a method without results.
type Voider struct{}

func (Voider) Touch() {}

// PanicIter is an application Iterator that fails inside Next.
type PanicIter struct{ n int }

func (p *PanicIter) Next() interface{} {
	p.n++
	if p.n > 1 {
		panic("iterator failure")
	}
	return p.n
}

type countIter struct{ n, max int }

func (c *countIter) Next() interface{} {
	if c.n >= c.max {
		return nil
	}
	c.n++
	return c.n
}

type htmler struct{ s string }

func (h htmler) HTML() template.HTML { return template.HTML(h.s) }

var fixedTime = time.Date(2020, 2, 3, 4, 5, 6, 0, time.UTC)

func newPerson() *Person {
	return &Person{Name: "N", Kid: &Person{Name: "K"}, Kids: []Person{{Name: "K0"}, {Name: "K1"}}, Tags: []string{"t0", "t1"}, Attrs: map[string]string{"k": "v"}, hidden: "h"}
}

// CorpusContext is the data every Corpus template renders under.
func CorpusContext() *plush.Context {
	c := plush.NewContext()
	c.Set("x", 1)
	c.Set("s", "hello")
	c.Set("t", true)
	c.Set("f", false)
	c.Set("xs", []int{1, 2, 3})
	c.Set("ys", []string{"a", "b"})
	c.Set("m1", map[string]int{"k": 1})
	c.Set("st", newPerson())
	c.Set("blk", func(help plush.HelperContext) (template.HTML, error) {
		s, err := help.Block()
		return template.HTML("{" + s + "}"), err
	})
	c.Set("h", func(help plush.HelperContext) (template.HTML, error) {
		if !help.HasBlock() {
			return "noblock", nil
		}
		s, err := help.Block()
		return template.HTML(s), err
	})
	c.Set("partialFeeder", func(name string) (string, error) {
		switch name {
		case "p1":
			return `[<%= w %>]`, nil
		}
		return "", fmt.Errorf("no partial %q", name)
	})
	return c
}

// Polymorphic receivers: one AST node evaluated with receivers of different Go types whose fields
// and methods of the same name sit at different positions (anything remembered per node or per
// name about a receiver's layout is wrong for the next receiver).

type PolyA struct {
	ID   int
	Name string
}
type PolyB struct{ Name string }
type PolyC struct {
	Other, Another string
	Name           string
}

func (PolyA) Alpha() string         { return "A.Alpha" }
func (PolyA) Describe(n int) string { return fmt.Sprint("A.Describe", n) }
func (PolyB) Describe(n int) string { return fmt.Sprint("B.Describe", n) }
func (PolyB) Zeta() string          { return "B.Zeta" }
func (p *PolyC) Beta() string       { return "C.Beta" }
func (PolyC) Alpha() string         { return "C.Alpha" }
func (PolyC) Describe(n int) string { return fmt.Sprint("C.Describe", n) }
func (PolyC) Gamma() string         { return "C.Gamma" }

type PolyCase struct {
	Name, Src, Want string
	Execs           []func(c *plush.Context) // contexts for consecutive executions of ONE parsed template
}

func PolyCases() []PolyCase {
	a, b, c := PolyA{1, "a"}, PolyB{"b"}, PolyC{"o", "n", "c"}
	vals := map[string]interface{}{"a": a, "b": b, "c": c, "pc": &c}
	var out []PolyCase
	orders := [][]string{{"a", "b", "c"}, {"c", "b", "a"}, {"b", "c", "a", "b"}, {"pc", "c", "pc"}, {"c", "pc", "c"}, {"a", "pc", "b"}}
	bodies := []struct {
		name, src string
		want      func(k string) string
	}{
		{"field", `<%= x.Name %>;`, func(k string) string { return map[string]string{"a": "a", "b": "b", "c": "c", "pc": "c"}[k] + ";" }},
		{"method", `<%= x.Describe(7) %>;`, func(k string) string {
			return map[string]string{"a": "A.Describe7", "b": "B.Describe7", "c": "C.Describe7", "pc": "C.Describe7"}[k] + ";"
		}},
		{"field+method", `<%= x.Name %>/<%= x.Describe(1) %>;`, func(k string) string {
			return map[string]string{"a": "a/A.Describe1", "b": "b/B.Describe1", "c": "c/C.Describe1", "pc": "c/C.Describe1"}[k] + ";"
		}},
		{"indexed", `<%= one[0].Name %>/<%= one[0].Describe(2) %>;`, func(k string) string {
			return map[string]string{"a": "a/A.Describe2", "b": "b/B.Describe2", "c": "c/C.Describe2", "pc": "c/C.Describe2"}[k] + ";"
		}},
		{"via-helper", `<%= idv(x).Name %>/<%= idv(x).Describe(3) %>;`, func(k string) string {
			return map[string]string{"a": "a/A.Describe3", "b": "b/B.Describe3", "c": "c/C.Describe3", "pc": "c/C.Describe3"}[k] + ";"
		}},
	}
	for _, ord := range orders {
		var list []interface{}
		for _, k := range ord {
			list = append(list, vals[k])
		}
		for _, bd := range bodies {
			var want strings.Builder
			for _, k := range ord {
				want.WriteString(bd.want(k))
			}
			ord, bd, list := ord, bd, list
			// one loop over a mixed slice
			body := strings.Replace(bd.src, "one[0]", "[x][0]", -1)
			out = append(out, PolyCase{
				Name: "loop over " + strings.Join(ord, ",") + " " + bd.name,
				Src:  `<%= for (x) in mixed { %>` + body + `<% } %>`, Want: want.String(),
				Execs: []func(c *plush.Context){func(c *plush.Context) { c.Set("mixed", list) }},
			})
			// one parsed template executed once per receiver
			pc := PolyCase{Name: "executions " + strings.Join(ord, ",") + " " + bd.name, Src: bd.src, Want: want.String()}
			for _, k := range ord {
				v := vals[k]
				pc.Execs = append(pc.Execs, func(c *plush.Context) { c.Set("x", v); c.Set("one", []interface{}{v}) })
			}
			out = append(out, pc)
		}
	}
	return out
}

// RunPoly executes a PolyCase: one parsed template, its executions in order, outputs concatenated.
func RunPoly(pc PolyCase) (string, error) {
	plush.CacheEnabled = false
	t, err := plush.NewTemplate(pc.Src)
	if err != nil {
		return "", err
	}
	var sb strings.Builder
	for _, set := range pc.Execs {
		c := plush.NewContext()
		c.Set("idv", func(v interface{}) interface{} { return v })
		set(c)
		out, err := t.Exec(c)
		if err != nil {
			return "", err
		}
		sb.WriteString(out)
	}
	return sb.String(), nil
}

// CallStringFunc calls an exported helper function value with s as its first argument and zero values for any further
// parameters, and returns its first result printed; going through reflection keeps the harness building when a change
// widens the helper's signature.
func CallStringFunc(fn interface{}, s string) string {
	fv := reflect.ValueOf(fn)
	ft := fv.Type()
	args := make([]reflect.Value, ft.NumIn())
	for i := range args {
		if i == 0 {
			args[i] = reflect.ValueOf(s).Convert(ft.In(0))
			continue
		}
		args[i] = reflect.Zero(ft.In(i))
	}
	res := fv.Call(args)
	if len(res) == 0 {
		return ""
	}
	return fmt.Sprint(res[0].Interface())
}
