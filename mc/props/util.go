package props

import (
	"errors"
	"fmt"
	"html/template"
	"time"

	"verifmc/engine"

	plush "github.com/gobuffalo/plush/v5"
	"github.com/gobuffalo/plush/v5/helpers/hctx"
)

// Render executes src on the real implementation with the cache disabled.
func Render(src string, ctx *plush.Context) (string, error) {
	plush.CacheEnabled = false
	return plush.Render(src, ctx)
}

// Totality is the generic oracle "(out, nil) or ("", err)".
func Totality(out string, err error) *engine.Fail {
	if err != nil && out != "" {
		return engine.Failf("partial-output", "error %q returned together with non-empty output %q", err.Error(), out)
	}
	return nil
}

func q(s string) string { return fmt.Sprintf("%q", s) }

func errStr(err error) string {
	if err == nil {
		return "<nil>"
	}
	return err.Error()
}

// ---------------------------------------------------------------------------
// shared data types

type Person struct {
	Name   string
	Kid    *Person
	NilKid *Person
	Kids   []Person
	Tags   []string
	Attrs  map[string]string
	hidden string
}

func (p Person) Hello() string { return "hello " + p.Name }
func (p *Person) PtrHello() string {
	if p == nil {
		return "ptr nil"
	}
	return "ptr " + p.Name
}
func (p Person) Add(a int) int         { return a + 1 }
func (p Person) Self() Person          { return p }
func (p Person) Fail() (string, error) { return "", ErrSentinel }
func (p Person) GetKids() []Person     { return p.Kids }

var ErrSentinel = errors.New("sentinel failure")

// structs whose ID/Slug fields have non-comparable or interface types (pathFor inspects them)
type WithSliceID struct{ ID []int }
type WithMapSlug struct{ Slug map[string]int }
type WithAnyID struct{ ID interface{} }

// ValStringer implements fmt.Stringer with a value receiver (a nil *ValStringer panics in Go when printed naively).
type ValStringer struct{ S string }

func (v ValStringer) String() string { return v.S }

// WithNilEmbeddedID embeds a nil pointer to a struct that has ID and Slug fields.
type BaseID struct {
	ID   int
	Slug string
}
type WithNilEmbeddedID struct{ *BaseID }

// WideHelperContext has the helper-context method set plus one more method.
type WideHelperContext interface {
	hctx.HelperContext
	Extra()
}

// NamedHelperContext is convertible to plush.HelperContext but is a different type.
type NamedHelperContext plush.HelperContext

// IDList is a named slice type with a value-receiver method.
type IDList []int

func (l IDList) Count() int { return len(l) }

// WithNilEmbedded promotes X through an embedded pointer that is nil.
type Embedded struct{ X string }

// Hello is a value-receiver method: promoted through the nil embedded pointer it cannot be called
func (e Embedded) Hello() string { return "emb " + e.X }

type WithNilEmbedded struct{ *Embedded }

type countIter struct{ n, max int }

func (c *countIter) Next() interface{} {
	if c.n >= c.max {
		return nil
	}
	c.n++
	return c.n
}

type htmler struct{ s string }

func (h htmler) HTML() template.HTML { return template.HTML(h.s) }

var fixedTime = time.Date(2020, 2, 3, 4, 5, 6, 0, time.UTC)

func newPerson() *Person {
	return &Person{Name: "N", Kid: &Person{Name: "K"}, Kids: []Person{{Name: "K0"}, {Name: "K1"}}, Tags: []string{"t0", "t1"}, Attrs: map[string]string{"k": "v"}, hidden: "h"}
}

// CorpusContext is the data every Corpus template renders under.
func CorpusContext() *plush.Context {
	c := plush.NewContext()
	c.Set("x", 1)
	c.Set("s", "hello")
	c.Set("t", true)
	c.Set("f", false)
	c.Set("xs", []int{1, 2, 3})
	c.Set("ys", []string{"a", "b"})
	c.Set("m1", map[string]int{"k": 1})
	c.Set("st", newPerson())
	c.Set("blk", func(help plush.HelperContext) (template.HTML, error) {
		s, err := help.Block()
		return template.HTML("{" + s + "}"), err
	})
	c.Set("h", func(help plush.HelperContext) (template.HTML, error) {
		if !help.HasBlock() {
			return "noblock", nil
		}
		s, err := help.Block()
		return template.HTML(s), err
	})
	c.Set("partialFeeder", func(name string) (string, error) {
		switch name {
		case "p1":
			return `[<%= w %>]`, nil
		}
		return "", fmt.Errorf("no partial %q", name)
	})
	return c
}
