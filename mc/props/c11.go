package props

import (
	"fmt"
	"os"
	"reflect"
	"sort"
	"strings"

	"verifmc/engine"

	plush "github.com/gobuffalo/plush/v5"
)

// C11 — path access returns exactly what Go navigation would, or fails; never another.

type PLeaf struct {
	P      string
	Name   string
	Tags   []string
	Attrs  map[string]string
	hidden string
}

func (l PLeaf) Title() string { return l.P + ".Title()" }
func (l *PLeaf) PtrTitle() string {
	if l == nil {
		return "nil.PtrTitle()"
	}
	return l.P + ".PtrTitle()"
}

type PNode struct {
	P       string
	Name    string
	Zero    int // always 0: index material for paths used as indexes
	One     int // always 1
	Leaf    PLeaf
	Ptr     *PLeaf
	NilLeaf *PLeaf
	Inner   *PNode
	Leaves  []PLeaf
	PLeaves []*PLeaf
	Arr     [2]PLeaf
	ByName  map[string]PLeaf
	PByName map[string]*PLeaf
	Nodes   []PNode
	Kids    []PNode
	KidsX   []*PNode
	Grid    [][]string
	hidden  string
}

func (n PNode) First() PLeaf {
	if len(n.Leaves) == 0 {
		return c11Leaf(n.P + ".First()")
	}
	return n.Leaves[0]
}
func (n *PNode) PFirst() *PLeaf {
	if n == nil || len(n.PLeaves) == 0 {
		return c11PLeaf("nil.PFirst()")
	}
	return n.PLeaves[0]
}
func (n PNode) All() []PLeaf { return n.Leaves }
func (n PNode) Kid() PNode {
	if len(n.Kids) > 0 {
		return n.Kids[0]
	}
	return PNode{P: n.P + ".Kid()", Name: n.P + ".Kid().Name"}
}

func c11Leaf(p string) PLeaf {
	return PLeaf{P: p, Name: p + ".Name", Tags: []string{p + ".Tags[0]", p + ".Tags[1]"}, Attrs: map[string]string{"k0": p + `.Attrs["k0"]`, "k1": p + `.Attrs["k1"]`}, hidden: "h"}
}

func c11PLeaf(p string) *PLeaf { l := c11Leaf(p); return &l }

func c11Node(p string, depth int) PNode {
	n := PNode{P: p, Name: p + ".Name", One: 1, hidden: "h"}
	n.Leaf = c11Leaf(p + ".Leaf")
	n.Ptr = c11PLeaf(p + ".Ptr")
	n.Leaves = []PLeaf{c11Leaf(p + ".Leaves[0]"), c11Leaf(p + ".Leaves[1]")}
	n.PLeaves = []*PLeaf{c11PLeaf(p + ".PLeaves[0]"), c11PLeaf(p + ".PLeaves[1]")}
	n.Arr = [2]PLeaf{c11Leaf(p + ".Arr[0]"), c11Leaf(p + ".Arr[1]")}
	n.ByName = map[string]PLeaf{"k0": c11Leaf(p + `.ByName["k0"]`), "k1": c11Leaf(p + `.ByName["k1"]`)}
	n.PByName = map[string]*PLeaf{"k0": c11PLeaf(p + `.PByName["k0"]`), "k1": c11PLeaf(p + `.PByName["k1"]`)}
	n.Grid = [][]string{{p + ".Grid[0][0]", p + ".Grid[0][1]"}, {p + ".Grid[1][0]", p + ".Grid[1][1]"}}
	if depth > 0 {
		in := c11Node(p+".Inner", depth-1)
		n.Inner = &in
		n.Nodes = []PNode{c11Node(p+".Nodes[0]", depth-1), c11Node(p+".Nodes[1]", depth-1)}
		n.Kids = []PNode{c11Node(p+".Kids[0]", depth-1), c11Node(p+".Kids[1]", depth-1)}
		kx := c11Node(p+".KidsX[0]", depth-1)
		n.KidsX = []*PNode{&kx}
	}
	return n
}

var c11Root = c11Node("R", 3)

// heterogeneous elements: the same field names at different positions
type HetA struct {
	Title    string
	Director string
	Tags     []string
}
type HetB struct {
	Director string
	Tags     []string
	Title    string
}

var c11Mixed = []interface{}{
	HetA{"Mixed[0].Title", "Mixed[0].Director", []string{"Mixed[0].Tags[0]"}},
	HetB{"Mixed[1].Director", []string{"Mixed[1].Tags[0]"}, "Mixed[1].Title"},
	&HetA{"Mixed[2].Title", "Mixed[2].Director", []string{"Mixed[2].Tags[0]"}},
	&HetB{"Mixed[3].Director", []string{"Mixed[3].Tags[0]"}, "Mixed[3].Title"},
}

type c11Step struct {
	kind string // field | index | key | call
	name string
	idx  int
}

// spelling modes for indexes / keys
var c11Modes = []string{"lit", "var", "expr", "adv", "lenroot", "pathidx", "uvar"}

// c11RootLen: for the "lenroot" spelling an index i is written len(ROOT) / 2 when that equals i
// (an index expression that mentions the root variable: it must still mean the root inside the tail).
var c11RootLen = map[string]int{"Nodes": 2, "Kids": 2, "Leaves": 2, "Mixed": 4}

func (s c11Step) spell(mode string) string {
	switch s.kind {
	case "field":
		return "." + s.name
	case "call":
		return "." + s.name + "()"
	case "key":
		if mode == "var" || mode == "adv" {
			return "[s" + s.name[1:] + "]" // k0 -> s0
		}
		return `["` + s.name + `"]`
	case "index":
		switch mode {
		case "var":
			return fmt.Sprintf("[i%d]", s.idx)
		case "expr":
			return fmt.Sprintf("[i%d + 0]", s.idx)
		case "adv":
			// index variables named like fields
			if s.idx >= 2 {
				return fmt.Sprintf("[i%d]", s.idx)
			}
			return []string{"[Nodes0]", "[Kids1]"}[s.idx]
		}
		return fmt.Sprintf("[%d]", s.idx)
	}
	return "?"
}

// c11Nav is the reference: Go navigation by reflection. ok=false if uncompletable.
func c11Nav(v reflect.Value, s c11Step) (reflect.Value, bool) {
	for v.Kind() == reflect.Ptr || v.Kind() == reflect.Interface {
		if v.IsNil() {
			if s.kind == "call" && v.Kind() == reflect.Ptr {
				break // pointer-receiver methods may be callable on nil
			}
			return v, false
		}
		if s.kind == "call" && v.Kind() == reflect.Ptr {
			break
		}
		v = v.Elem()
	}
	switch s.kind {
	case "field":
		if v.Kind() != reflect.Struct {
			return v, false
		}
		f := v.FieldByName(s.name)
		if !f.IsValid() || !f.CanInterface() {
			return v, false
		}
		return f, true
	case "index":
		if v.Kind() != reflect.Slice && v.Kind() != reflect.Array {
			return v, false
		}
		if s.idx < 0 || s.idx >= v.Len() {
			return v, false
		}
		return v.Index(s.idx), true
	case "key":
		if v.Kind() != reflect.Map {
			return v, false
		}
		e := v.MapIndex(reflect.ValueOf(s.name))
		if !e.IsValid() {
			return v, false
		}
		return e, true
	case "call":
		m := v.MethodByName(s.name)
		if !m.IsValid() && v.CanAddr() {
			m = v.Addr().MethodByName(s.name)
		}
		if !m.IsValid() && v.Kind() != reflect.Ptr {
			p := reflect.New(v.Type())
			p.Elem().Set(v)
			m = p.MethodByName(s.name)
		}
		if !m.IsValid() || m.Type().NumIn() != 0 {
			return v, false
		}
		if v.Kind() == reflect.Ptr && v.IsNil() {
			return v, false
		}
		return m.Call(nil)[0], true
	}
	return v, false
}

func c11Options(v reflect.Value) (good []c11Step, bad []c11Step) {
	for v.Kind() == reflect.Ptr || v.Kind() == reflect.Interface {
		if v.IsNil() {
			return nil, nil
		}
		v = v.Elem()
	}
	switch v.Kind() {
	case reflect.Struct:
		t := v.Type()
		for i := 0; i < t.NumField(); i++ {
			f := t.Field(i)
			if f.Name == "P" {
				continue
			}
			if f.PkgPath != "" {
				bad = append(bad, c11Step{kind: "field", name: f.Name})
				continue
			}
			fv := v.Field(i)
			if fv.Kind() == reflect.Ptr && fv.IsNil() {
				continue // handled as an uncompletable continuation below
			}
			good = append(good, c11Step{kind: "field", name: f.Name})
		}
		pt := reflect.PtrTo(t)
		for i := 0; i < pt.NumMethod(); i++ {
			good = append(good, c11Step{kind: "call", name: pt.Method(i).Name})
		}
		bad = append(bad, c11Step{kind: "field", name: "Nope"}, c11Step{kind: "call", name: "Nope"})
	case reflect.Slice, reflect.Array:
		for i := 0; i < v.Len() && i < 4; i++ {
			good = append(good, c11Step{kind: "index", idx: i})
		}
		bad = append(bad, c11Step{kind: "index", idx: 9}, c11Step{kind: "index", idx: -1})
	case reflect.Map:
		keys := v.MapKeys()
		sort.Slice(keys, func(i, j int) bool { return keys[i].String() < keys[j].String() })
		for _, k := range keys {
			good = append(good, c11Step{kind: "key", name: k.String()})
		}
		bad = append(bad, c11Step{kind: "key", name: "k9"})
	}
	return
}

type c11RootSpec struct {
	name  string
	value func() interface{}
	start reflect.Value // where reference navigation starts
}

func c11Roots() []c11RootSpec {
	r := c11Root
	return []c11RootSpec{
		{"R", func() interface{} { return r }, reflect.ValueOf(r)},
		{"RP", func() interface{} { return &r }, reflect.ValueOf(&r)},
		{"Nodes", func() interface{} { return r.Nodes }, reflect.ValueOf(r.Nodes)}, // root named like a field
		{"Kids", func() interface{} { return r.Kids }, reflect.ValueOf(r.Kids)},    // root named like a field
		{"Name", func() interface{} { return r.Leaf }, reflect.ValueOf(r.Leaf)},    // root named like a field
		{"M", func() interface{} { return map[string]PNode{"k0": r.Nodes[0], "k1": r.Nodes[1]} }, reflect.ValueOf(map[string]PNode{"k0": r.Nodes[0], "k1": r.Nodes[1]})},
		{"Leaves", func() interface{} { return r.PLeaves }, reflect.ValueOf(r.PLeaves)}, // []*PLeaf under a field-like name
		{"Mixed", func() interface{} { return c11Mixed }, reflect.ValueOf(c11Mixed)},    // []interface{} of different struct types
	}
}

func c11Context(rs c11RootSpec) *plush.Context {
	c := plush.NewContext()
	c.Set(rs.name, rs.value())
	c.Set("i0", 0)
	c.Set("i1", 1)
	c.Set("i2", 2)
	c.Set("i3", 3)
	c.Set("i9", 9)
	c.Set("u0", uint(0))
	c.Set("u1", uint(1))
	c.Set("u8_0", uint8(0))
	c.Set("u8_1", uint8(1))
	c.Set("i64_0", int64(0))
	c.Set("i64_1", int64(1))
	c.Set("neg", -1)
	c.Set("Nodes0", 0)
	c.Set("Kids1", 1)
	c.Set("s0", "k0")
	c.Set("s1", "k1")
	c.Set("s9", "k9")
	return c
}

func init() {
	engine.Register(&engine.Prop{
		ID: "C11",
		Shards: func(th bool) []string {
			s := []string{"poly"}
			for ri, rs := range c11Roots() {
				good, _ := c11Options(rs.start)
				for gi := range good {
					s = append(s, fmt.Sprintf("%d:%d", ri, gi))
				}
			}
			return s
		},
		Run:  c11Run,
		Rule: "data graph of depth 3 from a struct/map/slice/pointer type family (repeated field names at several depths, prefix names Kids/KidsX, value- and pointer-receiver methods returning leaves/structs/slices, every leaf string spelling its own Go path); from 8 roots (struct value, pointer, slices and a leaf under names that are also field names, a map, a []interface{} of different struct types holding the same field names at different positions) every walk of the type graph of <=L steps (field, index, map key, method call) ending at a string leaf, with indexes/keys spelled as literals, variables, i+0 expressions, variables named like fields expressions that mention the root variable (len(ROOT) / 2), indexes that are themselves index-then-member paths through the same root, and unsigned / 64-bit index variables; each used in an output tag, through let, and (for walks through a slice) as loop iterable with the tail applied to the loop variable. Expected value = Go navigation by reflection. Every walk prefix is also extended by one uncompletable step (missing key, nil pointer then member/method, index 9 / -1 via variable, unknown field/method, unexported field), alone and followed by a further .Field / .Field[0] / .Method() continuation. Oracle: completable => exactly the leaf, or an error; never another value, never empty without error. Uncompletable => error or empty output, never a leaf, never a panic. (poly) one field / method / indexed / helper-result path node evaluated with receivers of 3 struct types (and a pointer) whose same-named fields and methods sit at different positions - in a loop over a mixed slice in 6 orders and as consecutive executions of one parsed template: always the named member of the current receiver; map lookups with a key of another kind than the map's key type (int for string, float for int, out-of-range int for uint8, bool for string, ...) fail or are empty, they never find the entry of a converted key; paths whose tail mentions the indexed variable again (as an index, as a method argument) see the collection, not the element; a path through a name rebound to nil in an inner scope (let, parameter, loop variable, partial data) fails or is empty, it never continues from the outer variable. Non-trivial: walks with >=2 steps.",
		Bound: func(th bool) string {
			if th {
				return "walk length <=7"
			}
			return "walk length <=6"
		},
	})
}

func c11Run(t *engine.T, shard string) {
	if shard == "poly" {
		// one path node evaluated with receivers of different struct types: each time the value Go navigation yields
		for _, pc := range PolyCases() {
			pc := pc
			t.Case("poly "+pc.Name+" "+q(pc.Src), true, func() (string, *engine.Fail) {
				out, err := RunPoly(pc)
				if err != nil {
					return "", engine.Failf("wrong-value", "expected %q, got error %v", pc.Want, err)
				}
				if out != pc.Want {
					return "", engine.Failf("wrong-value", "Go navigation yields %q, template rendered %q", pc.Want, out)
				}
				return "value", nil
			})
		}
		// the tail of an indexed path may mention the indexed variable again (as index, as argument): it still names the collection
		self := []struct{ src, want string }{
			{`<%= people[0].Greets(people[1].Name) %>`, "p0 greets p1"}, {`<%= people[1].Tags[people[0].N] %>`, "p1t1"}, {`<%= people[0].Tags[len(people) - 2] %>`, "p0t0"},
			{`<%= team["a"].Greets(team["b"].Name) %>`, "ta greets tb"}, {`<%= people[people[0].N].Name %>`, "p1"}, {`<%= people[1].Greets(people[people[0].N].Name) %>`, "p1 greets p1"},
			{`<% let people2 = people %><%= people2[0].Greets(people2[1].Name) %>|<%= people[0].Greets(people2[1].Name) %>`, "p0 greets p1|p0 greets p1"},
		}
		for _, c := range self {
			c := c
			t.Case("self-mention "+q(c.src), true, func() (string, *engine.Fail) {
				plush.CacheEnabled = false
				ctx := plush.NewContext()
				ctx.Set("people", []c11P{{"p0", 1, []string{"p0t0", "p0t1"}}, {"p1", 0, []string{"p1t0", "p1t1"}}})
				ctx.Set("team", map[string]c11P{"a": {"ta", 0, nil}, "b": {"tb", 0, nil}})
				out, err := plush.Render(c.src, ctx)
				if err != nil {
					return "fails", nil // a valid path may fail, it never yields another value
				}
				if out != c.want {
					return "", engine.Failf("wrong-value", "Go navigation yields %q, template rendered %q", c.want, out)
				}
				return "value", nil
			})
		}
		// pointer-receiver methods called on values that are not pointers (slice elements, map values, struct fields):
		// every call acts on its own receiver, also when results are kept or calls are nested in each other's arguments
		pv := []struct{ src, want string }{
			{`<% let a = xs[0].Self() %><% let b = xs[2].Self() %><%= a.Name %>|<%= b.Name %>`, "xs[0]|xs[2]"},
			{`<%= xs[0].Pick(xs[1].Label()) %>`, "xs[0]:xs[1]"}, {`<%= xs[0].Pick(xs[1].Pick(xs[2].Label())) %>`, "xs[0]:xs[1]:xs[2]"},
			{`<% let a = xs[0].Self() %><%= for (x) in xs { %><%= x.Label() %>,<% } %><%= a.Name %>`, "xs[0],xs[1],xs[2],xs[0]"},
			{`<% let a = xs[0].Self() %><%= xs[1].Label() %>|<%= a.Label() %>|<%= a.Name %>`, "xs[1]|xs[0]|xs[0]"},
			{`<%= mv["a"].Pick(mv["b"].Label()) %>`, "mv[a]:mv[b]"}, {`<% let a = mv["a"].Self() %><% let b = mv["b"].Self() %><%= a.Name %><%= b.Name %>`, "mv[a]mv[b]"},
			{`<% let a = hold.V.Self() %><% let b = xs[1].Self() %><%= a.Name %>|<%= b.Name %>|<%= hold.V.Pick(xs[2].Label()) %>`, "hold|xs[1]|hold:xs[2]"},
			{`<% let l = [xs[0].Self(), xs[1].Self(), xs[2].Self()] %><%= for (p) in l { %><%= p.Name %>,<% } %>`, "xs[0],xs[1],xs[2],"},
			{`<% let f = fn(i) { return xs[i].Self() } %><% let a = f(0) %><% let b = f(1) %><%= a.Name %><%= b.Name %><%= f(2).Name %><%= a.Name %>`, "xs[0]xs[1]xs[2]xs[0]"},
			{`<%= xs[0].Self().Pick(xs[1].Self().Label()) %>`, "xs[0]:xs[1]"},
		}
		for _, c := range pv {
			c := c
			t.Case("pointer-method-on-value "+q(c.src), true, func() (string, *engine.Fail) {
				for round := 0; round < 2; round++ {
					plush.CacheEnabled = false
					ctx := plush.NewContext()
					ctx.Set("xs", []c11PV{{"xs[0]"}, {"xs[1]"}, {"xs[2]"}})
					ctx.Set("mv", map[string]c11PV{"a": {"mv[a]"}, "b": {"mv[b]"}})
					ctx.Set("hold", struct{ V c11PV }{c11PV{"hold"}})
					out, err := plush.Render(c.src, ctx)
					if err != nil {
						return "fails", nil
					}
					if out != c.want {
						return "", engine.Failf("wrong-value", "Go navigation yields %q, template rendered %q (render %d)", c.want, out, round+1)
					}
				}
				return "value", nil
			})
		}
		// a field or method name that occurs at several depths of embedded structs: Go's selector rule (the
		// shallowest one; none when two are equally shallow) - the expected value is what reflect's FieldByName /
		// MethodByName yield on the same value
		item := EmbItem{EmbBase: EmbBase{EmbAudit: EmbAudit{ID: "audit-id", Deep: "audit-deep"}, Rev: "base-rev", Dup: "dup-base"}, EmbTags: EmbTags{ID: "tags-id", Dup: "dup-tags", Own: "tags-own"}, Own: "own", EmbPtr: &EmbPtr{PID: "ptr-pid", Deep: "ptr-deep"}}
		emb := []struct {
			src  string
			root interface{}
		}{
			{"ID", item}, {"Rev", item}, {"Own", item}, {"Dup", item}, {"Deep", item}, {"PID", item}, {"EmbBase.ID", item}, {"EmbTags.ID", item}, {"EmbBase.EmbAudit.ID", item}, {"EmbTags.Own", item}, {"EmbPtr.Deep", item},
			{"ID", &item}, {"Dup", &item}, {"Deep", &item}, {"Who()", item}, {"Who()", &item}, {"Amb()", item}, {"EmbBase.Who()", item},
			{"ID", EmbItem2{EmbTags: EmbTags{ID: "tags-id"}, EmbBase: EmbBase{EmbAudit: EmbAudit{ID: "audit-id"}}}}, {"ID", EmbItem3{EmbBase: EmbBase{EmbAudit: EmbAudit{ID: "audit-id"}}}}, {"Deep", EmbItem{}}, {"PID", EmbItem{}},
		}
		for _, c := range emb {
			c := c
			t.Case(fmt.Sprintf("embedded %T it.%s", c.root, c.src), true, func() (string, *engine.Fail) {
				plush.CacheEnabled = false
				ctx := plush.NewContext()
				ctx.Set("it", c.root)
				// Go's answer
				cur := reflect.ValueOf(c.root)
				ok := true
				for _, seg := range strings.Split(c.src, ".") {
					for cur.Kind() == reflect.Ptr {
						if cur.IsNil() {
							ok = false
							break
						}
						cur = cur.Elem()
					}
					if !ok {
						break
					}
					if strings.HasSuffix(seg, "()") {
						m := cur.MethodByName(strings.TrimSuffix(seg, "()"))
						if !m.IsValid() {
							ok = false
							break
						}
						cur = m.Call(nil)[0]
						continue
					}
					func() {
						defer func() {
							if recover() != nil {
								ok = false
							}
						}()
						f := cur.FieldByName(seg)
						if !f.IsValid() {
							ok = false
							return
						}
						cur = f
					}()
					if !ok {
						break
					}
				}
				out, err := plush.Render(`[<%= it.`+c.src+` %>]`, ctx)
				if err != nil {
					return "fails", nil
				}
				if ok && cur.Kind() == reflect.String {
					if out != "["+cur.String()+"]" && out != "[]" {
						return "", engine.Failf("wrong-value", "Go navigation yields %q, template rendered %q", cur.String(), out)
					}
					if out == "[]" && cur.String() != "" {
						return "empty", nil
					}
					return "value", nil
				}
				if !ok && out != "[]" {
					return "", engine.Failf("wrong-value", "Go cannot complete this selector (ambiguous, or through a nil embedded pointer), template rendered %q", out)
				}
				return "empty", nil
			})
		}
		// one spelling used as a member name in one path and as a variable (index, argument) in another path of the same
		// template, in either order; calls with two arguments of which a later one is itself a call with an argument,
		// evaluated several times in one render
		same := []struct{ src, want string }{
			{`<%= rows[1].Idx %>|<%= rows[0].Cols[Idx].Name %>`, "1|rows[0].Cols[3]"}, {`<%= rows[0].Cols[Idx].Name %>|<%= rows[1].Idx %>`, "rows[0].Cols[3]|1"},
			{`<%= rows[0].Greet(Name) %>|<%= rows[1].Name %>`, "rows[0] greets VAR|rows[1]"}, {`<%= rows[1].Name %>|<%= rows[0].Greet(Name) %>`, "rows[1]|rows[0] greets VAR"},
			{`<%= rows[1].Idx %><% let f = fn(Idx) { return rows[0].Cols[Idx].Name } %><%= f(2) %>|<%= rows[0].Cols[Idx].Name %>`, "1rows[0].Cols[2]|rows[0].Cols[3]"},
			{`<%= for (Idx) in [0, 1] { %><%= rows[Idx].Idx %>:<%= rows[1].Cols[Idx].Name %>,<% } %>`, "0:rows[1].Cols[0],1:rows[1].Cols[1],"},
			{`<%= hold.Row.Name %>|<%= rows[0].Greet(Row) %>|<%= hold.Row.Cols[Idx].Name %>`, "hold|rows[0] greets ROWVAR|hold.Cols[3]"},
			{`<%= rows[0].Cell(0, rows[0].Last(2)).Name %>|<%= rows[0].Cell(0, rows[0].Last(2)).Name %>`, "rows[0].Cols[2]|rows[0].Cols[2]"},
			{`<%= rows[0].Greet("x") %>|<%= rows[0].Cell(1, rows[0].Last(2)).Name %>|<%= rows[1].Cell(0, rows[0].Last(1)).Name %>|<%= rows[0].Cell(1, rows[0].Last(2)).Name %>`, "rows[0] greets x|rows[0].Cols[3]|rows[1].Cols[1]|rows[0].Cols[3]"},
			{`<%= for (r) in rows { %><%= prow.Cell(r.Idx, rows[0].Last(2)).Name %>,<% } %><%= for (r) in rows { %><%= prow.Cell(r.Idx, rows[0].Last(1)).Name %>,<% } %>`, "prow.Cols[2],prow.Cols[3],prow.Cols[1],prow.Cols[2],"},
			{`<% let a = rows[0].Cell(0, rows[1].Last(3)) %><% let b = rows[1].Cell(rows[0].Last(1), rows[1].Last(1)) %><%= a.Name %>|<%= b.Name %>|<%= rows[0].Cell(rows[0].Last(0), rows[1].Last(0)).Name %>`, "rows[0].Cols[3]|rows[1].Cols[2]|rows[0].Cols[0]"},
		}
		for _, c := range same {
			c := c
			t.Case("same-spelling "+q(c.src), true, func() (string, *engine.Fail) {
				for round := 0; round < 2; round++ {
					plush.CacheEnabled = false
					ctx := plush.NewContext()
					mk := func(name string, idx int) c11Row {
						r := c11Row{Idx: idx, Name: name}
						for i := 0; i < 9; i++ {
							r.Cols = append(r.Cols, c11Col{fmt.Sprintf("%s.Cols[%d]", name, i)})
						}
						return r
					}
					ctx.Set("rows", []c11Row{mk("rows[0]", 0), mk("rows[1]", 1)})
					pr := mk("prow", 9)
					ctx.Set("prow", &pr)
					ctx.Set("hold", struct{ Row c11Row }{mk("hold", 5)})
					ctx.Set("Idx", 3)
					ctx.Set("Name", "VAR")
					ctx.Set("Row", "ROWVAR")
					out, err := plush.Render(c.src, ctx)
					if err != nil {
						return "fails", nil
					}
					if out != c.want {
						return "", engine.Failf("wrong-value", "Go navigation yields %q, template rendered %q (render %d)", c.want, out, round+1)
					}
				}
				return "value", nil
			})
		}
		// a map key of another kind than the map's keys cannot be looked up: never the entry of a converted key
		for _, c := range []string{`<%= msv[97] %>`, `<%= msv[97.0] %>`, `<%= miv[1.9] %>`, `<%= miv[1.0] %>`, `<%= miv["1"] %>`, `<%= m8v[257] %>`, `<%= m8v[-255] %>`, `<%= mfv[1] %>`, `<%= msv[true] %>`, `<%= mbv[1] %>`,
			`<% let k = 97 %><%= msv[k] %>`, `<%= msv[i97] %>`, `<%= miv[f19] %>`, `<%= msv[97].Name %>`, `<%= for (k, v) in [97] { %><%= msv[v] %><% } %>`} {
			c := c
			t.Case("foreign-key "+q(c), true, func() (string, *engine.Fail) {
				plush.CacheEnabled = false
				ctx := plush.NewContext()
				ctx.Set("msv", map[string]string{"a": "ENTRY-a", "1": "ENTRY-1"})
				ctx.Set("miv", map[int]string{1: "ENTRY-1", 0: "ENTRY-0"})
				ctx.Set("m8v", map[uint8]string{1: "ENTRY-1"})
				ctx.Set("mfv", map[float64]string{1: "ENTRY-1"})
				ctx.Set("mbv", map[bool]string{true: "ENTRY-true"})
				ctx.Set("i97", int32(97))
				ctx.Set("f19", 1.9)
				out, err := plush.Render(c, ctx)
				if err != nil {
					return "fails", nil
				}
				if strings.Contains(out, "ENTRY") {
					return "", engine.Failf("wrong-value", "a key of another kind found the entry of a converted key: rendered %q", out)
				}
				return "empty", nil
			})
		}
		// a name rebound to nil in an inner scope: a path through it cannot be completed - it must not continue from
		// the same-named outer variable
		nilr := []struct{ name, src string }{
			{"let in a function", `<% let cur = pers %><% let f = fn() { let cur = pers.NilKid
 return cur.Name } %>[<%= f() %>]`},
			{"parameter", `<% let cur = pers %><% let f = fn(cur) { return cur.Name } %>[<%= f(pers.NilKid) %>]`},
			{"loop variable over a nil element", `<% let n = pers %><%= for (n) in nodes { %>[<%= n.Name %>]<% } %>`},
			{"nested loops over a nil element", `<%= for (n) in outerl { %><%= for (n) in nodes { %>[<%= n.Name %>]<% } %><% } %>`},
			{"partial data", `<% let cur = pers %>[<%= partial("pcur", {"cur": pers.NilKid}) %>]`},
		}
		for _, c := range nilr {
			c := c
			t.Case("nil-rebind "+c.name+" "+q(c.src), true, func() (string, *engine.Fail) {
				plush.CacheEnabled = false
				ctx := plush.NewContext()
				ctx.Set("pers", &Person{Name: "OUTER"})
				ctx.Set("nodes", []interface{}{nil})
				ctx.Set("outerl", []interface{}{&Person{Name: "OUTER"}})
				ctx.Set("partialFeeder", func(string) (string, error) { return `<%= cur.Name %>`, nil })
				out, err := plush.Render(c.src, ctx)
				if err != nil {
					return "fails", nil
				}
				if strings.Contains(out, "OUTER") {
					return "", engine.Failf("wrong-value", "navigation through a name bound to nil continued from the outer variable: rendered %q", out)
				}
				return "empty", nil
			})
		}
		return
	}
	var ri, gi int
	fmt.Sscanf(shard, "%d:%d", &ri, &gi)
	rs := c11Roots()[ri]
	L := 6
	if t.Thorough {
		L = 7
	}
	good, _ := c11Options(rs.start)
	var rec func(v reflect.Value, steps []c11Step)
	rec = func(v reflect.Value, steps []c11Step) {
		// v: value after steps
		cur := v
		for cur.Kind() == reflect.Interface {
			cur = cur.Elem()
		}
		if cur.Kind() == reflect.String {
			c11Emit(t, rs, steps, cur.String())
			return
		}
		g, b := c11Options(cur)
		// uncompletable continuations
		for _, bs := range b {
			c11Bad(t, rs, append(steps[:len(steps):len(steps)], bs))
			// ... and the path continuing after the step that cannot be completed
			c11Bad(t, rs, append(steps[:len(steps):len(steps)], bs, c11Step{kind: "field", name: "Name"}))
			c11Bad(t, rs, append(steps[:len(steps):len(steps)], bs, c11Step{kind: "field", name: "Tags"}, c11Step{kind: "index", idx: 0}))
			c11Bad(t, rs, append(steps[:len(steps):len(steps)], bs, c11Step{kind: "call", name: "Title"}))
		}
		// nil pointer field then member / method
		if cur.Kind() == reflect.Struct || (cur.Kind() == reflect.Ptr && !cur.IsNil() && cur.Elem().Kind() == reflect.Struct) {
			sv := cur
			if sv.Kind() == reflect.Ptr {
				sv = sv.Elem()
			}
			if f := sv.FieldByName("NilLeaf"); f.IsValid() {
				c11Bad(t, rs, append(steps[:len(steps):len(steps)], c11Step{kind: "field", name: "NilLeaf"}, c11Step{kind: "field", name: "Name"}))
				c11Bad(t, rs, append(steps[:len(steps):len(steps)], c11Step{kind: "field", name: "NilLeaf"}, c11Step{kind: "call", name: "Title"}))
				c11Bad(t, rs, append(steps[:len(steps):len(steps)], c11Step{kind: "field", name: "NilLeaf"}, c11Step{kind: "field", name: "Tags"}, c11Step{kind: "index", idx: 0}))
			}
		}
		if len(steps) >= L {
			return
		}
		for _, s := range g {
			nv, ok := c11Nav(cur, s)
			if !ok {
				continue
			}
			rec(nv, append(steps[:len(steps):len(steps)], s))
		}
	}
	first := good[gi]
	nv, ok := c11Nav(rs.start, first)
	if ok {
		rec(nv, []c11Step{first})
	}
}

func c11Path(rs c11RootSpec, steps []c11Step, mode string) string {
	var sb strings.Builder
	sb.WriteString(rs.name)
	for _, s := range steps {
		if mode == "pathidx" {
			// the index is itself an index-then-member path through the same root
			if (rs.name == "R" || rs.name == "RP") && s.kind == "index" && s.idx < 2 {
				sb.WriteString("[" + rs.name + []string{".Nodes[1].Zero", ".Nodes[0].One"}[s.idx] + "]")
				continue
			}
			sb.WriteString(s.spell("lit"))
			continue
		}
		if mode == "uvar" {
			// unsigned / 64-bit index variables (not ints: an error is fine, a panic is not)
			if s.kind == "index" && s.idx < 2 {
				sb.WriteString(fmt.Sprintf("[%s%d]", []string{"u", "u8_", "i64_"}[len(steps)%3], s.idx))
				continue
			}
			sb.WriteString(s.spell("lit"))
			continue
		}
		if mode == "lenroot" {
			if n, ok := c11RootLen[rs.name]; ok && s.kind == "index" && s.idx == n/2 {
				sb.WriteString("[len(" + rs.name + ") / 2]")
				continue
			}
			sb.WriteString(s.spell("lit"))
			continue
		}
		sb.WriteString(s.spell(mode))
	}
	return sb.String()
}

func c11HasIdx(steps []c11Step) bool {
	for _, s := range steps {
		if s.kind == "index" || s.kind == "key" {
			return true
		}
	}
	return false
}

func c11Emit(t *engine.T, rs c11RootSpec, steps []c11Step, want string) {
	modes := c11Modes
	if !c11HasIdx(steps) {
		modes = []string{"lit"}
	}
	for _, mode := range modes {
		path := c11Path(rs, steps, mode)
		for _, use := range []struct{ name, pre, post string }{
			{"emit", `<%= `, ` %>`},
			{"let", `<% let z = `, ` %><%= z %>`},
		} {
			src := use.pre + path + use.post
			t.Case("path "+use.name+" "+mode+" "+src, len(steps) >= 2, func() (string, *engine.Fail) {
				out, err := Render(src, c11Context(rs))
				if f := Totality(out, err); f != nil {
					return "", f
				}
				if err != nil {
					t.Count("completable_paths_that_failed", 1)
					if os.Getenv("C11_SHOW_FAILS") != "" {
						fmt.Fprintf(os.Stderr, "FAILS %s :: %v\n", src, err)
					}
					return "fails", nil
				}
				if out != templateEscape(want) {
					return "", engine.Failf("wrong-value", "Go navigation yields %q, template rendered %q", want, out)
				}
				t.Count("completable_paths_yielding_their_value", 1)
				return "value", nil
			})
		}
	}
	// as loop iterable: split at each index step over a slice/array
	for j, s := range steps {
		if s.kind != "index" {
			continue
		}
		// collection = value after steps[:j]
		v := rs.start
		ok := true
		for _, st := range steps[:j] {
			if v, ok = c11Nav(v, st); !ok {
				break
			}
		}
		if !ok {
			continue
		}
		for v.Kind() == reflect.Ptr || v.Kind() == reflect.Interface {
			v = v.Elem()
		}
		var wants []string
		for i := 0; i < v.Len(); i++ {
			e := v.Index(i)
			good := true
			for _, st := range steps[j+1:] {
				if e, good = c11Nav(e, st); !good {
					break
				}
			}
			for good && e.Kind() == reflect.Interface {
				e = e.Elem()
			}
			if !good || e.Kind() != reflect.String {
				wants = nil
				break
			}
			wants = append(wants, templateEscape(e.String()))
		}
		if wants == nil {
			continue
		}
		var tail strings.Builder
		tail.WriteString("e")
		for _, st := range steps[j+1:] {
			tail.WriteString(st.spell("lit"))
		}
		src := `<%= for (e) in ` + c11Path(rs, steps[:j], "lit") + ` { %><%= ` + tail.String() + ` %>|<% } %>`
		want := strings.Join(wants, "|") + "|"
		t.Case("path for "+src, true, func() (string, *engine.Fail) {
			out, err := Render(src, c11Context(rs))
			if f := Totality(out, err); f != nil {
				return "", f
			}
			if err != nil {
				t.Count("completable_paths_that_failed", 1)
				return "fails", nil
			}
			if out != want {
				return "", engine.Failf("wrong-value", "Go navigation yields %q, template rendered %q", want, out)
			}
			t.Count("completable_paths_yielding_their_value", 1)
			return "value", nil
		})
	}
}

func templateEscape(s string) string {
	return strings.NewReplacer(`&`, "&amp;", `<`, "&lt;", `>`, "&gt;", `"`, "&#34;", `'`, "&#39;").Replace(s)
}

func c11Bad(t *engine.T, rs c11RootSpec, steps []c11Step) {
	for _, mode := range []string{"lit", "var"} {
		var sb strings.Builder
		sb.WriteString(rs.name)
		for _, s := range steps {
			switch {
			case s.kind == "index" && s.idx == -1:
				sb.WriteString("[neg]")
			case s.kind == "index" && s.idx == 9 && mode == "var":
				sb.WriteString("[i9]")
			default:
				sb.WriteString(s.spell(mode))
			}
		}
		src := `<%= ` + sb.String() + ` %>`
		t.Case("uncompletable "+mode+" "+src, true, func() (string, *engine.Fail) {
			out, err := Render(src, c11Context(rs))
			if f := Totality(out, err); f != nil {
				return "", f
			}
			if err != nil {
				return "error", nil
			}
			if out != "" {
				return "", engine.Failf("wrong-value", "navigation cannot be completed but the template rendered %q", out)
			}
			return "empty", nil
		})
		if !c11HasIdx(steps) {
			break
		}
	}
}

type c11P struct {
	Name string
	N    int
	Tags []string
}

func (p c11P) Greets(other string) string { return p.Name + " greets " + other }

// c11PV has only pointer-receiver methods and is stored by value.
type c11PV struct{ Name string }

func (p *c11PV) Self() *c11PV         { return p }
func (p *c11PV) Label() string        { return p.Name }
func (p *c11PV) Pick(s string) string { return p.Name + ":" + s }

type EmbAudit struct{ ID, Deep string }

func (EmbAudit) Who() string { return "audit" }

type EmbBase struct {
	EmbAudit
	Rev, Dup string
}

func (EmbBase) Amb() string { return "amb-base" }

type EmbTags struct{ ID, Dup, Own string }

func (EmbTags) Who() string { return "tags" }
func (EmbTags) Amb() string { return "amb-tags" }

type EmbPtr struct{ PID, Deep string }

// EmbItem: ID is promoted from EmbTags (depth 1) although EmbBase, declared first, provides it at depth 2; Dup and Amb
// are ambiguous (depth 1 twice); Deep is ambiguous at depth 1 (EmbPtr) vs depth 2 - EmbPtr wins; Own is the struct's own.
type EmbItem struct {
	EmbBase
	EmbTags
	*EmbPtr
	Own string
}

type EmbItem2 struct {
	EmbTags
	EmbBase
}

type EmbItem3 struct{ EmbBase }

type c11Col struct{ Name string }

type c11Row struct {
	Idx  int
	Name string
	Cols []c11Col
}

func (r c11Row) Greet(n string) string { return r.Name + " greets " + n }
func (r c11Row) Cell(i, j int) c11Col  { return r.Cols[i+j] }
func (r c11Row) Last(k int) int        { return k }
