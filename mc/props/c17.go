package props

import (
	"context"
	"fmt"
	"html/template"
	"path/filepath"
	"strings"
	"time"

	"verifmc/engine"

	plush "github.com/gobuffalo/plush/v5"
)

// C17 — rendering via partial/layout/contentFor/block helpers equals rendering inline.

var c17Bodies = []struct{ name, src string }{
	{"text", `plain <b>text</b>`},
	{"emit", `(<%= v %>)`},
	{"emit-u", `<%= if (u) { %><%= u %><% } else { %>no-u<% } %>`},
	{"probe-v", `<%= if (v) { %>v=<%= v %><% } else { %>no-v<% } %>`},
	{"loop", `<%= for (e) in xs { %>[<%= e %><%= v %>]<% } %>`},
	{"cond", `<%= if (v == "D") { %>data:<%= v %><% } else { %>outer:<%= v %><% } %>`},
	{"let", `<% let v = "local" %><%= v %><%= tick() %>`},
	{"tick", `<%= tick() %>t`},
	{"quote", `'q"<%= v %>\z`},
	{"nested", `<<%= partial("inner.html", {"w": v}) %>>`},
	{"nested-layout", `<<%= partial("inner.html", {"w": "W", "layout": "lay1.html"}) %>>`},
}

var c17Data = []struct {
	name string
	src  string
	m    map[string]interface{}
}{
	{"none", ``, nil},
	{"empty", `, {}`, map[string]interface{}{}},
	{"shadow", `, {"v": "D"}`, map[string]interface{}{"v": "D"}},
	{"fresh", `, {"u": "U<"}`, map[string]interface{}{"u": "U<"}},
	{"both", `, {"v": "D", "u": "U<"}`, map[string]interface{}{"v": "D", "u": "U<"}},
	{"shadow-with-nil", `, {"v": nil}`, map[string]interface{}{"v": nil}},
	{"nil-and-fresh", `, {"v": nil, "u": "U<"}`, map[string]interface{}{"v": nil, "u": "U<"}},
}

var c17Layouts = []string{"", "lay1.html", "lay2.html", "lay.js"}

type c17Env struct {
	texts map[string]string
	ticks int
	ct    string
	rec   []string
}

func c17NewEnv(ct string) *c17Env {
	return &c17Env{ct: ct, texts: map[string]string{
		"inner.html": `{w=<%= w %>;v=<%= v %>}`,
		"lay1.html":  `<l1 v="<%= v %>"><%= yield %></l1>`,
		"lay2.html":  `<l2><%= partial("wrap.html", {"layout": "lay1.html"}) %>|<%= yield %></l2>`,
		"lay.js":     `js(<%= yield %>)`,
		"wrap.html":  `w`,
	}}
}

func (e *c17Env) context() *plush.Context {
	c := plush.NewContext()
	c.Set("v", "O&<")
	c.Set("xs", []string{"a", "b"})
	if e.ct != "" {
		c.Set("contentType", e.ct)
	}
	c.Set("tick", func() string { e.ticks++; return "" })
	c.Set("partialFeeder", func(name string) (string, error) {
		if s, ok := e.texts[name]; ok {
			return s, nil
		}
		return "", fmt.Errorf("no partial %q", name)
	})
	c.Set("recblk", func(help plush.HelperContext) (template.HTML, error) {
		s, err := help.Block()
		e.rec = append(e.rec, s)
		return template.HTML("{" + s + "}"), err
	})
	c.Set("recwith", func(help plush.HelperContext) (template.HTML, error) {
		ch := help.New()
		ch.Set("u", "from-helper")
		s, err := help.BlockWith(ch)
		e.rec = append(e.rec, s)
		return template.HTML("{" + s + "}"), err
	})
	c.Set("twice", func(help plush.HelperContext) (template.HTML, error) {
		s, err := help.Block()
		return template.HTML(s + "+" + s), err
	})
	return c
}

// c17Inline is the inline reference for partial(name, data): the named text rendered by plush
// itself as a standalone template in the equivalent scope.
func (e *c17Env) inline(name string, data map[string]interface{}, scope *plush.Context) (string, error) {
	child := scope.New().(*plush.Context)
	for k, v := range data {
		child.Set(k, v)
	}
	text, ok := e.texts[name]
	if !ok {
		return "", fmt.Errorf("no partial")
	}
	part, err := Render(text, child)
	if err != nil {
		return "", err
	}
	if strings.Contains(e.ct, "javascript") {
		if ext := filepath.Ext(name); ext != ".js" && ext != "" {
			part = template.JSEscapeString(part)
		}
	}
	if lay, ok := data["layout"].(string); ok {
		return e.inline(lay, map[string]interface{}{"yield": template.HTML(part)}, child)
	}
	return part, nil
}

func init() {
	engine.Register(&engine.Prop{
		ID: "C17",
		Shards: func(th bool) []string {
			s := []string{"content", "blocks", "absolute"}
			for i := range c17Bodies {
				s = append(s, fmt.Sprintf("partial:%d", i))
			}
			return s
		},
		Run:  c17Run,
		Rule: "(partial) 11 bodies (text, output tags of outer/data names, loop, conditional, let inside, counting marker, quotes/backslash, nested partial, nested partial with layout) x 7 data maps (none, empty, shadowing an outer name, fresh name, both, shadowing with nil, nil + fresh) x layout {none, layout, layout whose template itself uses a partial with a layout, .js layout} x content type {unset, text/html, application/javascript, text/javascript; charset=utf-8, application/x-javascript} x partial name extension {.html, .js, none} (under a JavaScript content type also below directory names that contain dots: ../shared/, ./, v1.2/, dir.js/, a.b/c.d/) x position (top level, inside for, inside if, inside a helper block, inside a user function): output equals the composition at string level of the same sources rendered by plush itself as standalone templates in the equivalent scope (JS case: JSEscapeString of it), a counting marker shows every insertion happened exactly once. (content) every sequence of <=4 items from {contentFor(c1){…}, contentFor(c2){…}, contentOf(c1|c2|undefined) with/without data and with/without default block}: contentFor emits nothing where defined, each contentOf emits the stored block rendered with its data in a child of the definition scope (or its default block, or the render fails when undefined), later definitions win. (absolute) 15 compositions (incl. a name carried by a wrapped Go context read in partials, a layout, nested partials, stored and default blocks) with literal expectations: partials nested two and three deep inside a partial that was given a layout (only that partial is wrapped); a list printed by an output tag and modified later in the same block (if / helper / contentFor / function / for body: printed as it was at the tag, like inline); a time printed inside blocks whose own context carries a TIME_FORMAT (contentOf data, default block, BlockWith(child)); empty blocks (a block helper with an empty / comment-only / silent block has a block that renders to nothing; empty contentOf default and contentFor blocks), outer variables, variables and data named like built-in helpers, data overriding and sibling isolation through partials nested three deep, layout of a nested partial, contentFor inside a partial, block helper inside a partial inside a loop. (blocks) block helpers using Block() / BlockWith(child) / calling Block() twice over the same bodies and placements: the string the helper received equals the inline rendering. Non-trivial: all cases with a non-text body or data.",
		Bound: func(th bool) string {
			if th {
				return "all listed combinations; content programs of <=5 items"
			}
			return "all listed combinations; content programs of <=4 items"
		},
	})
}

var c17Places = []struct{ name, pre, post string }{
	{"top", "", ""},
	{"in-for", `<%= for (z) in one { %>`, `<% } %>`},
	{"in-if", `<%= if (true) { %>`, `<% } %>`},
	{"in-block", `<%= recblk() { %>`, `<% } %>`},
	{"in-fn", `<% let pf = fn() { %>`, `<% } %><%= pf() %>`},
}

func c17Run(t *engine.T, shard string) {
	kind, arg, _ := strings.Cut(shard, ":")
	switch kind {
	case "partial":
		var bi int
		fmt.Sscan(arg, &bi)
		body := c17Bodies[bi]
		for _, ext := range []string{".html", ".js", ""} {
			for _, ct := range []string{"", "text/html", "application/javascript", "text/javascript; charset=utf-8", "application/x-javascript"} {
				for _, d := range c17Data {
					for _, lay := range c17Layouts {
						for _, pl := range c17Places {
							if ct != "application/javascript" && strings.Contains(ct, "javascript") && (pl.name != "top" && pl.name != "in-for" || d.m != nil && d.name != "fresh") {
								continue // the other JavaScript content types: two placements, two data maps
							}
							for _, dir := range []string{"", "../shared/", "./", "v1.2/", "dir.js/", "a.b/c.d/"} {
								if dir != "" && (!strings.Contains(ct, "javascript") || pl.name != "top" || (d.m != nil && d.name != "fresh")) {
									continue // names with dots in their directory part: what counts is the extension of the last element
								}
								name := dir + "body" + ext
								dsrc := d.src
								data := map[string]interface{}{}
								for k, v := range d.m {
									data[k] = v
								}
								if lay != "" {
									data["layout"] = lay
									if d.m == nil {
										dsrc = `, {"layout": "` + lay + `"}`
									} else if len(d.m) == 0 {
										dsrc = `, {"layout": "` + lay + `"}`
									} else {
										dsrc = strings.TrimSuffix(d.src, "}") + `, "layout": "` + lay + `"}`
									}
								}
								src := "PRE|" + pl.pre + `<%= partial("` + name + `"` + dsrc + `) %>` + pl.post + "|POST"
								desc := fmt.Sprintf("partial body=%s ext=%q ct=%q data=%s layout=%q place=%s %s", body.name, ext, ct, d.name, lay, pl.name, q(src))
								t.Case(desc, body.name != "text" || d.m != nil, func() (string, *engine.Fail) {
									e := c17NewEnv(ct)
									e.texts[name] = body.src
									ctx := e.context()
									ctx.Set("one", []int{1})
									out, err := Render(src, ctx)
									ticksGot := e.ticks
									// inline reference
									e2 := c17NewEnv(ct)
									e2.texts[name] = body.src
									ctx2 := e2.context()
									ctx2.Set("one", []int{1})
									var scope *plush.Context = ctx2
									if pl.name == "in-for" || pl.name == "in-fn" {
										scope = ctx2.New().(*plush.Context) // the construct's own scope
										scope.Set("z", 1)
									}
									want, werr := e2.inline(name, data, scope)
									if werr != nil {
										if err == nil {
											return "", engine.Failf("mismatch", "inline rendering fails (%v) but the partial rendered %q", werr, out)
										}
										return "both-fail", nil
									}
									if err != nil {
										return "", engine.Failf("mismatch", "inline rendering gives %q but the partial failed: %v", want, err)
									}
									full := "PRE|" + want + "|POST"
									if pl.name == "in-block" {
										full = "PRE|{" + want + "}|POST"
									}
									if out != full {
										return "", engine.Failf("mismatch", "expected %q (inline), got %q", full, out)
									}
									if ticksGot != e2.ticks {
										return "", engine.Failf("insertions", "body executed %d times, inline executes it %d times", ticksGot, e2.ticks)
									}
									if strings.Contains(ct, "javascript") && ext == ".html" {
										return "js-escaped", nil
									}
									return "equal-inline", nil
								})
							}
						}
					}
				}
			}
		}
	case "content":
		c17Content(t)
	case "absolute":
		c17Absolute(t)
	case "blocks":
		for _, body := range c17Bodies {
			for _, h := range []string{"recblk", "recwith", "twice"} {
				for _, pl := range c17Places {
					if pl.name == "in-block" {
						continue
					}
					src := "PRE|" + pl.pre + `<%= ` + h + `() { %>` + body.src + `<% } %>` + pl.post + "|POST"
					body, h, pl := body, h, pl
					t.Case("block "+h+" body="+body.name+" place="+pl.name+" "+q(src), true, func() (string, *engine.Fail) {
						e := c17NewEnv("")
						ctx := e.context()
						ctx.Set("one", []int{1})
						out, err := Render(src, ctx)
						e2 := c17NewEnv("")
						ctx2 := e2.context()
						ctx2.Set("one", []int{1})
						scope := ctx2
						if pl.name == "in-for" || pl.name == "in-fn" {
							scope = ctx2.New().(*plush.Context)
						}
						if h == "recwith" {
							scope = scope.New().(*plush.Context)
							scope.Set("u", "from-helper")
						}
						want, werr := Render(body.src, scope)
						if h == "twice" {
							w2, _ := Render(body.src, scope)
							_ = w2
						}
						if werr != nil {
							if err == nil {
								return "", engine.Failf("mismatch", "inline body fails (%v) but the helper call rendered %q", werr, out)
							}
							return "both-fail", nil
						}
						if err != nil {
							return "", engine.Failf("mismatch", "inline body renders %q but the helper call failed: %v", want, err)
						}
						full := "PRE|{" + want + "}|POST"
						if h == "twice" {
							if body.name == "let" || body.name == "tick" || true {
								// second rendering may see the first one's let: compare with plush inline of the body twice
								sc2 := e2.context()
								sc2.Set("one", []int{1})
								var s2 *plush.Context = sc2
								if pl.name == "in-for" || pl.name == "in-fn" {
									s2 = sc2.New().(*plush.Context)
								}
								a, _ := Render(body.src, s2)
								b, _ := Render(body.src, s2)
								full = "PRE|" + a + "+" + b + "|POST"
							}
						} else if len(e.rec) != 1 || e.rec[0] != want {
							return "", engine.Failf("block-text", "helper received %q, inline rendering of its block is %q", e.rec, want)
						}
						if out != full {
							return "", engine.Failf("mismatch", "expected %q, got %q", full, out)
						}
						return "equal-inline", nil
					})
				}
			}
		}
	}
}

// c17Absolute: compositions with literal expectations (a differential oracle cannot see a defect
// that affects the inline rendering and the composed rendering alike, e.g. in nested scopes).
func c17Absolute(t *engine.T) {
	cases := []struct{ name, src, want string }{
		{"outer variables reach partials nested three deep", `<%= partial("n1.html") %>`, "a:O&amp;&lt;,b:O&amp;&lt;,c:O&amp;&lt;"},
		{"a variable named like a built-in helper reaches partials nested three deep", `<%= partial("h1.html") %>`, "a:staging,b:staging,c:staging"},
		{"data named like a built-in helper is passed down", `<%= partial("l1.html", {"len": 3}) %>`, "a:3,b:3,c:[3]"},
		{"data overrides only below", `<%= partial("n1.html", {"v": "D"}) %>|<%= v %>`, "a:D,b:D,c:D|O&amp;&lt;"},
		{"inner data does not leak to siblings", `<%= partial("s1.html") %>`, "x:1,y:none"},
		{"layout of a nested partial sees the nested data", `<%= partial("inner.html", {"w": "W", "v": "V", "layout": "lay1.html"}) %>`, `<l1 v="V">{w=W;v=V}</l1>`},
		{"contentFor inside a partial is usable there", `<%= partial("cf.html") %>`, "[in]"},
		{"block helper inside a partial inside a loop", `<%= for (e) in xs { %><%= partial("bh.html") %><% } %>`, "{a}{b}"},
		{"a block rendered with its own context prints with that context's settings", `<% contentFor("tf") { %>[<%= when %>]<% } %><%= contentOf("tf", {"TIME_FORMAT": "2006"}) %>|<%= contentOf("tf") %>|<%= contentOf("undef", {"TIME_FORMAT": "Jan 2006"}) { %>(<%= when %>)<% } %>|<%= withfmt() { %><%= when %>;<%= [when][0] %><% } %>|<%= when %>`, "[2021]|[March 04, 2021 05:06:07 +0000]|(Mar 2021)|{03/2021;03/2021}|March 04, 2021 05:06:07 +0000"},
		{"a layout wraps the partial it was given for, not the partials nested inside", `<%= partial("o2.html", {"layout": "lo.html"}) %>|<%= partial("o2.html") %>|<%= partial("o3.html", {"layout": "lo.html", "x": 5}) %>`, "L(o[leaf|leaf:1])|o[leaf|leaf:1]|L(p[o[leaf:5|leaf:1]|M(leaf:5)])"},
		{"an output tag in a block prints the value as it is at that tag", `<% let a = [1, 2] %><%= a %><% a[0] = 7 %>|<%= if (true) { %><%= a %><% a[0] = 9 %><% } %>|<%= hasb() { %><%= a %><%= [a, [a]] %><% a[1] = 5 %><% } %>|<% contentFor("late") { %><%= a %><% a[0] = 0 %><% } %><%= contentOf("late") %>|<% let f = fn() { %><%= a %><% a[1] = 1 %><% } %><%= f() %>|<%= for (x) in [1] { %><%= a %><% a[0] = 3 %><% } %>|<%= a %>`, "12|72|has=true[929292]|95|05|01|31"},
		{"an empty block is a block", `<%= hasb() { %><% } %>|<%= hasb() {} %>|<%= hasb() { } %>|<%= hasb() %>|<%= hasb() { %> <% } %>|<%= hasb() { %><%# c %><% } %>|<%= hasb() { %><% let q = 1 %><% } %>`, "has=true[]|has=true[]|has=true[]|has=false[]|has=true[ ]|has=true[]|has=true[]"},
		{"an empty default block of contentOf renders to nothing", `A<%= contentOf("undefined") { %><% } %>B<%= contentOf("undef2", {"a": 1}) { } %>C<%= contentOf("undef3") {} %>D`, "ABCD"},
		{"an empty contentFor block renders to nothing", `<% contentFor("e1") { %><% } %><% contentFor("e2") {} %>A<%= contentOf("e1") %>B<%= contentOf("e2") { %>default<% } %>C`, "ABC"},
	}
	t.Case("absolute names of a wrapped Go context reach partials, layouts and stored blocks", true, func() (string, *engine.Fail) {
		plush.CacheEnabled = false
		ctx := plush.NewContextWithContext(context.WithValue(context.Background(), "user", "Ann"))
		ctx.Set("partialFeeder", func(name string) (string, error) {
			switch name {
			case "hi":
				return `Hi <%= user %>!`, nil
			case "lay":
				return `<l for="<%= user %>"><%= yield %></l>`, nil
			case "deep":
				return `{<%= partial("hi") %>}`, nil
			}
			return "", fmt.Errorf("no partial %q", name)
		})
		src := `Hi <%= user %>!|<%= partial("hi") %>|<%= partial("hi", {"layout": "lay"}) %>|<%= partial("deep") %>|<% contentFor("c") { %>Hi <%= user %>!<% } %><%= contentOf("c") %>|<%= contentOf("c", {"x": 1}) %>|<%= contentOf("undefined") { %>Hi <%= user %>!<% } %>`
		want := `Hi Ann!|Hi Ann!|<l for="Ann">Hi Ann!</l>|{Hi Ann!}|Hi Ann!|Hi Ann!|Hi Ann!`
		out, err := plush.Render(src, ctx)
		if err != nil || out != want {
			return "", engine.Failf("mismatch", "expected %q, got %q / %v", want, out, err)
		}
		return "equal-expected", nil
	})
	// a block helper whose argument is itself a block helper call that ended in continue / break still receives its
	// own whole block (the loop is continued / left after the statement)
	cases = append(cases, []struct{ name, src, want string }{
		{"contentOf default block after an argument whose block ended in continue", `<%= for (i) in [1, 2, 3] { %><%= contentOf("missing", {"v": contentOf("gone") { %>s<% continue %>never<% }}) { %>A<%= v %>B<%= i %>C<% } %>|<% } %>`, "AsB1CAsB2CAsB3C"},
		{"contentOf default block after an argument whose block ended in break", `<%= for (i) in [1, 2, 3] { %><%= contentOf("missing", {"v": contentOf("gone") { %>s<% break %>never<% }}) { %>A<%= v %>B<%= i %>C<% } %>|<% } %>`, "AsB1C"},
		{"block helper after an argument whose block ended in continue", `<%= for (i) in [1, 2] { %><%= wraparg(recblk() { %>s<% continue %>n<% }) { %>A<%= i %>B<%= i %><% } %>|<% } %>`, "({s}:A1B1)({s}:A2B2)"},
		{"BlockWith helper after an argument whose block ended in continue", `<%= for (i) in [1, 2] { %><%= wrapargw(recblk() { %>s<% if (true) { continue } %>n<% }) { %>A<%= i %>B<%= u %><% } %>|<% } %>`, "({s}:A1Bfrom-helper)({s}:A2Bfrom-helper)"},
		{"stored block run by contentOf after an argument whose block ended in continue", `<% contentFor("st9") { %>X<%= v %>Y<%= v %>Z<% } %><%= for (i) in [1, 2] { %><%= contentOf("st9", {"v": recblk() { %>s<% continue %>n<% }}) %>|<% } %>`, "X{s}Y{s}ZX{s}Y{s}Z"},
		{"partial after a data value whose block ended in continue", `<%= for (i) in [1, 2] { %><%= partial("two.html", {"d": recblk() { %>s<% continue %>n<% }}) %>|<% } %>`, "[{s}/{s}][{s}/{s}]"},
	}...)
	for _, c := range cases {
		c := c
		t.Case("absolute "+c.name+" "+q(c.src), true, func() (string, *engine.Fail) {
			e := c17NewEnv("")
			e.texts["n1.html"] = `a:<%= v %>,<%= partial("n2.html") %>`
			e.texts["n2.html"] = `b:<%= v %>,<%= partial("n3.html") %>`
			e.texts["n3.html"] = `c:<%= v %>`
			e.texts["h1.html"] = `a:<%= env %>,<%= partial("h2.html") %>`
			e.texts["h2.html"] = `b:<%= env %>,<%= partial("h3.html") %>`
			e.texts["h3.html"] = `c:<%= env %>`
			e.texts["l1.html"] = `a:<%= len %>,<%= partial("l2.html") %>`
			e.texts["l2.html"] = `b:<%= len %>,<%= partial("l3.html") %>`
			e.texts["l3.html"] = `c:[<%= len %>]`
			e.texts["s1.html"] = `<%= partial("s2.html", {"x": 1}) %>,<%= partial("s3.html") %>`
			e.texts["s2.html"] = `x:<%= x %>`
			e.texts["s3.html"] = `y:<%= if (x) { %><%= x %><% } else { %>none<% } %>`
			e.texts["lo.html"] = `L(<%= yield %>)`
			e.texts["lm.html"] = `M(<%= yield %>)`
			e.texts["leaf.html"] = `leaf<%= if (x) { %>:<%= x %><% } %>`
			e.texts["o2.html"] = `o[<%= partial("leaf.html") %>|<%= partial("leaf.html", {"x": 1}) %>]`
			e.texts["o3.html"] = `p[<%= partial("o2.html") %>|<%= partial("leaf.html", {"layout": "lm.html"}) %>]`
			e.texts["cf.html"] = `<% contentFor("pc") { %>[in]<% } %><%= contentOf("pc") %>`
			e.texts["bh.html"] = `<%= recblk() { %><%= e %><% } %>`
			e.texts["two.html"] = `[<%= d %>/<%= d %>]`
			ctx := e.context()
			ctx.Set("env", "staging") // a variable named like a built-in helper
			ctx.Set("when", time.Date(2021, 3, 4, 5, 6, 7, 0, time.UTC))
			ctx.Set("withfmt", func(help plush.HelperContext) (template.HTML, error) {
				child := help.New()
				child.Set("TIME_FORMAT", "01/2006")
				b, err := help.BlockWith(child)
				return template.HTML("{" + b + "}"), err
			})
			ctx.Set("wraparg", func(a template.HTML, help plush.HelperContext) (template.HTML, error) {
				b, err := help.Block()
				return "(" + a + ":" + template.HTML(b) + ")", err
			})
			ctx.Set("wrapargw", func(a template.HTML, help plush.HelperContext) (template.HTML, error) {
				ch := help.New()
				ch.Set("u", "from-helper")
				b, err := help.BlockWith(ch)
				return "(" + a + ":" + template.HTML(b) + ")", err
			})
			ctx.Set("hasb", func(help plush.HelperContext) (string, error) {
				if !help.HasBlock() {
					return "has=false[]", nil
				}
				b, err := help.Block()
				return "has=true[" + b + "]", err
			})
			out, err := Render(c.src, ctx)
			if err != nil || out != c.want {
				return "", engine.Failf("mismatch", "expected %q, got %q / %v", c.want, out, err)
			}
			return "equal-expected", nil
		})
	}
}

type c17Item struct {
	kind  string // def | use
	name  string
	data  bool
	dflt  bool
	inner string // "" | for | fn : the use sits inside a for / user-function body and is followed by that scope's variable
}

var c17MaxItems = 4

func c17Content(t *engine.T) {
	c17MaxItems = 4
	if t.Thorough {
		c17MaxItems = 5
	}
	var items []c17Item
	for _, n := range []string{"c1", "c2"} {
		items = append(items, c17Item{"def", n, false, false, ""}, c17Item{"def2", n, false, false, ""})
	}
	for _, n := range []string{"c1", "c2", "zz"} {
		for _, d := range []bool{false, true} {
			for _, df := range []bool{false, true} {
				items = append(items, c17Item{"use", n, d, df, ""})
			}
		}
	}
	items = append(items, c17Item{"use", "c1", true, false, "for"}, c17Item{"use", "c1", false, false, "fn"}, c17Item{"use", "c2", true, true, "for"})
	blockOf := map[string]string{"def": `[<%= v %>|<%= if (n) { %><%= n %><% } %>|<%= tick() %>]`, "def2": `{second <%= if (n) { %><%= n %><% } %>}`}
	dflt := `(default <%= if (n) { %><%= n %><% } %><%= v %>)`
	var rec func(seq []c17Item)
	rec = func(seq []c17Item) {
		if len(seq) > 0 {
			sq := append([]c17Item{}, seq...)
			var sb strings.Builder
			for i, it := range sq {
				fmt.Fprintf(&sb, "%d:", i)
				switch it.kind {
				case "def", "def2":
					sb.WriteString(`<% contentFor("` + it.name + `") { %>` + blockOf[it.kind] + `<% } %>`)
				case "use":
					d := ""
					if it.data {
						d = fmt.Sprintf(`, {"n": "N%d&"}`, i)
					}
					use := `<%= contentOf("` + it.name + `"` + d + `) %>`
					if it.dflt {
						use = `<%= contentOf("` + it.name + `"` + d + `) { %>` + dflt + `<% } %>`
					}
					switch it.inner {
					case "for":
						use = `<%= for (z) in xs { %>` + use + `<%= z %>;<% } %>`
					case "fn":
						use = `<% let uf = fn(p) { %>` + use + `<%= p %>;<% } %><%= uf("P") %>`
					}
					sb.WriteString(use)
				}
			}
			src := sb.String() + "end"
			t.Case("content "+q(src), true, func() (string, *engine.Fail) {
				e := c17NewEnv("")
				out, err := Render(src, e.context())
				// reference
				e2 := c17NewEnv("")
				top := e2.context()
				defs := map[string]string{}
				var want strings.Builder
				fails := false
				for i, it := range sq {
					fmt.Fprintf(&want, "%d:", i)
					switch it.kind {
					case "def", "def2":
						defs[it.name] = blockOf[it.kind]
					case "use":
						ch := top.New().(*plush.Context)
						if it.data {
							ch.Set("n", fmt.Sprintf("N%d&", i))
						}
						body, ok := defs[it.name]
						if !ok {
							if !it.dflt {
								fails = true
							}
							body = dflt
						}
						if fails {
							break
						}
						if !ok && it.inner == "for" {
							// the default block runs in a child of the call-site scope (inside the loop)
							ch.Set("z", "a")
						}
						s, rerr := Render(body, ch)
						if rerr != nil {
							return "", engine.Failf("harness", "reference body failed: %v", rerr)
						}
						switch it.inner {
						case "for":
							// two iterations (xs = a, b); the stored block does not see the loop variable
							s2, _ := Render(body, ch)
							want.WriteString(s + "a;" + s2 + "b;")
						case "fn":
							want.WriteString(s + "P;")
						default:
							want.WriteString(s)
						}
					}
					if fails {
						break
					}
				}
				if fails {
					if err == nil {
						return "", engine.Failf("mismatch", "contentOf of an undefined name without default block must fail, rendered %q", out)
					}
					return "undefined-fails", nil
				}
				if err != nil {
					return "", engine.Failf("mismatch", "expected %q, got error %v", want.String()+"end", err)
				}
				if out != want.String()+"end" {
					return "", engine.Failf("mismatch", "expected %q, got %q", want.String()+"end", out)
				}
				if e.ticks != e2.ticks {
					return "", engine.Failf("insertions", "stored block executed %d times, expected %d", e.ticks, e2.ticks)
				}
				return "equal-inline", nil
			})
		}
		if len(seq) == c17MaxItems {
			return
		}
		// a program whose last item already fails the render is not extended further
		defined := map[string]bool{}
		for _, it := range seq {
			if it.kind != "use" {
				defined[it.name] = true
			} else if !defined[it.name] && !it.dflt {
				return
			}
		}
		for _, it := range items {
			rec(append(seq[:len(seq):len(seq)], it))
		}
	}
	rec(nil)
}
