package props

import (
	"encoding/json"
	"fmt"
	"html"
	"html/template"
	"reflect"
	"strings"
	"unicode/utf8"

	"verifmc/engine"

	plush "github.com/gobuffalo/plush/v5"
	"github.com/gobuffalo/plush/v5/helpers/encoders"
	"github.com/gobuffalo/plush/v5/helpers/escapes"
	"github.com/gobuffalo/plush/v5/helpers/hctx"
	"github.com/gobuffalo/plush/v5/helpers/helptest"
	"github.com/gobuffalo/plush/v5/helpers/text"
)

// C20 — text and encoding helpers.

var c20Sigma = []string{"a", "é", "世", "́", "\xff", "<", ">", "&", "'", `"`, "=", "\n", `\`, " "}

var c20Trails = []string{"", ".", "…", "...", "éé", "--------"}

func c20Runes(s string) int { return len([]rune(s)) }

// c20Boundaries: byte offsets at which s may be cut without splitting a character.
func c20Boundaries(s string) map[int]bool {
	b := map[int]bool{len(s): true}
	for i := range s {
		b[i] = true
	}
	return b
}

func c20Truncate(s string, size int, trail string, opts hctx.Map) *engine.Fail {
	r := text.Truncate(s, opts)
	if c20Runes(s) <= size {
		if r != s {
			return engine.Failf("truncate", "s has %d <= size=%d characters but was changed: %q -> %q", c20Runes(s), size, s, r)
		}
		return nil
	}
	if !strings.HasSuffix(r, trail) {
		return engine.Failf("truncate", "result %q does not end with the trail %q (s=%q size=%d)", r, trail, s, size)
	}
	p := r[:len(r)-len(trail)]
	if !strings.HasPrefix(s, p) {
		return engine.Failf("truncate", "result %q minus trail is not a prefix of s=%q (size=%d trail=%q)", r, s, size, trail)
	}
	if !c20Boundaries(s)[len(p)] {
		return engine.Failf("truncate", "result %q splits a multi-byte character of s=%q (cut at byte %d)", r, s, len(p))
	}
	limit := size
	if c20Runes(trail) > limit {
		limit = c20Runes(trail)
	}
	if c20Runes(r) > limit {
		return engine.Failf("truncate", "result %q has %d characters, more than max(size=%d, trail=%d) (s=%q)", r, c20Runes(r), size, c20Runes(trail), s)
	}
	if utf8.ValidString(s) && utf8.ValidString(trail) && !utf8.ValidString(r) {
		return engine.Failf("truncate", "valid UTF-8 in, invalid UTF-8 out: %q (s=%q)", r, s)
	}
	return nil
}

func c20EscapedHTML(out string) *engine.Fail {
	rest := out
	for _, e := range []string{"&lt;", "&gt;", "&amp;", "&#39;", "&#34;", "&quot;", "&apos;"} {
		rest = strings.ReplaceAll(rest, e, "")
	}
	if strings.ContainsAny(rest, `<>&'"`) {
		return engine.Failf("htmlEscape", "output %q still contains one of < > & ' \"", out)
	}
	return nil
}

func c20EscapedJS(out string) *engine.Fail {
	if strings.ContainsAny(out, "<>&=") {
		return engine.Failf("jsEscape", "output %q contains one of < > & =", out)
	}
	for i, r := range out {
		switch r {
		case '\n', '\r', ' ', ' ':
			return engine.Failf("jsEscape", "output %q contains a raw line break at byte %d", out, i)
		case '\'', '"':
			n := 0
			for j := i - 1; j >= 0 && out[j] == '\\'; j-- {
				n++
			}
			if n%2 == 0 {
				return engine.Failf("jsEscape", "output %q contains an unescaped quote at byte %d", out, i)
			}
		}
	}
	return nil
}

// JSON value generator ------------------------------------------------------

func c20JSONValues(depth int) []interface{} {
	leaves := []interface{}{nil, true, false, 0, -7, 1.5, "", "it's", template.HTML("<b>&"), template.HTML("12"), "a<b>&c", "é\"\\\n", " </script>", []interface{}{}, map[string]interface{}{}}
	if depth == 0 {
		return leaves
	}
	sub := c20JSONValues(depth - 1)
	out := append([]interface{}{}, leaves...)
	for i, a := range sub {
		out = append(out, []interface{}{a}, map[string]interface{}{"k<": a}, map[string]interface{}{"o'k": a})
		b := sub[(i*7+3)%len(sub)]
		out = append(out, []interface{}{a, b}, map[string]interface{}{"x": a, "y&": b})
	}
	return out
}

func c20Normalize(v interface{}) interface{} {
	switch t := v.(type) {
	case int:
		return float64(t)
	case template.HTML:
		return string(t) // a string kind: marshalled as a JSON string
	case []interface{}:
		o := make([]interface{}, len(t))
		for i := range t {
			o[i] = c20Normalize(t[i])
		}
		return o
	case map[string]interface{}:
		o := map[string]interface{}{}
		for k, x := range t {
			o[k] = c20Normalize(x)
		}
		return o
	}
	return v
}

func init() {
	engine.Register(&engine.Prop{
		ID: "C20",
		Shards: func(th bool) []string {
			s := []string{"patterned", "escape", "json", "defaults"}
			for i := range c20Sigma {
				s = append(s, fmt.Sprintf("trunc:%d", i))
			}
			return s
		},
		Run:  c20Run,
		Rule: "truncate: every string of length <=4 (5 thorough) over {a, é, 世, U+0301, \\xff, < > & ' \" = \\n \\\\ U+2028} x size in [-2,9] ∪ {50,70} x 6 trails (incl. empty, multi-byte, longer than size), and patterned strings (a^n, é^n, (a é 世 \\xff)^n) of every length 0..64 x size in [-2,70] x 6 trails; laws: unchanged if <= size characters, else byte-prefix-on-a-character-boundary + trail with at most max(size, |trail|) characters, valid UTF-8 preserved; default size 50 / trail '...'. htmlEscape / jsEscape / raw over every string of length <=4 (5) of the same alphabet (direct call and through a template): no raw specials, quotes and line breaks escaped, raw byte-identical. toJSON over a recursive value generator (incl. template.HTML strings such as the result of raw()) to depth 2 (3) and every top-level string of length <=3 over {a, \\n, \\t, \\x01, \", \\\\, <, é, U+2028, DEL, ', /}: valid JSON, decodes back to v (numbers as float64), no raw < > &, template result identical to the direct call; every ordered pair of a reduced value list (plus 70..200-byte strings): a map / slice / pointer modified in place between two calls is encoded as it is now; a result held while toJSON is called again still is the JSON of its own argument (directly and through let). Non-trivial: strings containing a multi-byte/invalid/special character or a truncation that actually cuts.",
		Bound: func(th bool) string {
			if th {
				return "strings of length <=5 over a 14-symbol alphabet; patterned length 0..64; JSON depth 3"
			}
			return "strings of length <=4 over a 14-symbol alphabet; patterned length 0..64; JSON depth 2"
		},
	})
}

func c20Run(t *engine.T, shard string) {
	L := 4
	if t.Thorough {
		L = 5
	}
	sizes := []int{-2, -1, 0, 1, 2, 3, 4, 5, 6, 7, 8, 9, 50, 70}
	switch {
	case strings.HasPrefix(shard, "trunc:"):
		var i int
		fmt.Sscanf(shard, "trunc:%d", &i)
		if i == 0 {
			c20TruncCase(t, "", sizes)
		}
		c02Strings(L-1, c20Sigma, func(s string) { c20TruncCase(t, c20Sigma[i]+s, sizes) })
	case shard == "patterned":
		var all []int
		for z := -2; z <= 70; z++ {
			all = append(all, z)
		}
		for n := 0; n <= 64; n++ {
			for _, unit := range []string{"a", "é", "aé世\xff"} {
				s := strings.Repeat(unit, n)
				if len(unit) > 2 {
					s = ""
					u := []string{"a", "é", "世", "\xff"}
					for k := 0; k < n; k++ {
						s += u[k%4]
					}
				}
				c20TruncCase(t, s, all)
			}
		}
	case shard == "defaults":
		for n := 45; n <= 56; n++ {
			s := strings.Repeat("é", n)
			t.Case(fmt.Sprintf("truncate default opts len=%d", n), n > 50, func() (string, *engine.Fail) {
				for _, opts := range []hctx.Map{{}, nil, {"size": nil}, {"trail": nil}} {
					if f := c20Truncate(s, 50, "...", opts); f != nil {
						return "", f
					}
				}
				if f := c20Truncate(s, 48, "...", hctx.Map{"size": 48}); f != nil {
					return "", f
				}
				if f := c20Truncate(s, 50, "~", hctx.Map{"trail": "~"}); f != nil {
					return "", f
				}
				ctx := plush.NewContext()
				ctx.Set("s", s)
				out, err := Render(`<%= truncate(s) %>|<%= truncate(s, {"size": 47, "trail": "é"}) %>`, ctx)
				want := template.HTMLEscapeString(text.Truncate(s, hctx.Map{})) + "|" + template.HTMLEscapeString(text.Truncate(s, hctx.Map{"size": 47, "trail": "é"}))
				if err != nil || out != want {
					return "", engine.Failf("truncate", "template call renders %q / %v, direct call gives %q", out, err, want)
				}
				return "law-holds", nil
			})
		}
	case shard == "escape":
		c02Strings(L, c20Sigma, func(s string) {
			nt := strings.ContainsAny(s, "<>&'\"=\n\\ ")
			t.Case("escape "+q(s), nt, func() (string, *engine.Fail) {
				h, err := escapes.HTMLEscape(s, helptest.NewContext())
				if err != nil {
					return "", engine.Failf("htmlEscape", "error %v", err)
				}
				if f := c20EscapedHTML(h); f != nil {
					return "", f
				}
				if f := c20EscapedJS(CallStringFunc(escapes.JSEscape, s)); f != nil {
					return "", f
				}
				// the block form: what the block rendered to - text that already holds entities included - is escaped like an argument
				for _, blockText := range []string{s, "Tom &amp; Jerry " + s, s + "&lt;&copy;&#39;", "&amp;" + s + "&amp;"} {
					hc := helptest.NewContext()
					blockText := blockText
					hc.BlockFn = func() (string, error) { return blockText, nil }
					hb, err := escapes.HTMLEscape("ignored <argument>", hc)
					if err != nil {
						return "", engine.Failf("htmlEscape", "block form: error %v", err)
					}
					if f := c20EscapedHTML(hb); f != nil {
						f.Msg = "block form, block text " + q(blockText) + ": " + f.Msg
						return "", f
					}
					if html.UnescapeString(string(hb)) != blockText && !strings.Contains(blockText, "\xff") {
						return "", engine.Failf("htmlEscape", "block form: %q does not decode back to the block's text %q", hb, blockText)
					}
				}
				ctx := plush.NewContext()
				ctx.Set("s", s)
				out, err := Render(`<%= raw(s) %>`, ctx)
				if err != nil || out != s {
					return "", engine.Failf("raw", "raw(%q) reached the output as %q / %v", s, out, err)
				}
				out, err = Render(`<%= jsEscape(s) %>`, ctx)
				if err != nil {
					return "", engine.Failf("jsEscape", "template error %v", err)
				}
				if f := c20EscapedJS(strings.NewReplacer("&#39;", "\\'", "&#34;", "\\\"").Replace(out)); f != nil && strings.ContainsAny(out, "<>=") {
					return "", f
				}
				out, err = Render(`<%= htmlEscape(s) %>`, ctx)
				if err != nil {
					return "", engine.Failf("htmlEscape", "template error %v", err)
				}
				if f := c20EscapedHTML(out); f != nil {
					return "", f
				}
				return "escaped", nil
			})
		})
	case shard == "json":
		depth := 2
		if t.Thorough {
			depth = 3
		}
		vals := c20JSONValues(depth)
		// top-level strings over control / special characters
		c02Strings(3, []string{"a", "\n", "\t", "\x01", `"`, `\`, "<", "é", "\u2028", "\x7f", "'", "/"}, func(s string) { vals = append(vals, s) })
		for i, v := range vals {
			v := v
			t.Case(fmt.Sprintf("toJSON #%d %#v", i, v), i >= 12, func() (string, *engine.Fail) {
				out, err := encoders.ToJSON(v)
				if err != nil {
					return "", engine.Failf("toJSON", "error %v", err)
				}
				s := string(out)
				if !json.Valid([]byte(s)) {
					return "", engine.Failf("toJSON", "output %q is not valid JSON", s)
				}
				var back interface{}
				if err := json.Unmarshal([]byte(s), &back); err != nil {
					return "", engine.Failf("toJSON", "output %q does not decode: %v", s, err)
				}
				if !reflect.DeepEqual(back, c20Normalize(v)) {
					return "", engine.Failf("toJSON", "decodes back to %#v, expected %#v", back, c20Normalize(v))
				}
				if strings.ContainsAny(s, "<>&") {
					return "", engine.Failf("toJSON", "output %q contains a raw < > or &", s)
				}
				ctx := plush.NewContext()
				ctx.Set("v", v)
				tout, terr := Render(`<%= toJSON(v) %>`, ctx)
				if v == nil {
					return "json-ok", nil // a nil variable is an unknown identifier in templates
				}
				if terr != nil || tout != s {
					return "", engine.Failf("toJSON", "template renders %q / %v, direct call %q", tout, terr, s)
				}
				return "json-ok", nil
			})
		}
		// toJSON encodes the value as it is now: a value changed in place between two calls
		t.Case("toJSON after in-place modification", true, func() (string, *engine.Fail) {
			m := map[string]interface{}{"a": 1, "l": []interface{}{1}}
			sl := []int{1, 2}
			type box struct{ N int }
			pb := &box{1}
			steps := []func(){func() { m["a"] = 2 }, func() { m["l"].([]interface{})[0] = 9 }, func() { sl[0] = 7 }, func() { pb.N = 5 }, func() { m["new"] = "x"; delete(m, "a") }}
			for si, step := range steps {
				for _, v := range []interface{}{m, sl, pb} {
					if _, err := encoders.ToJSON(v); err != nil {
						return "", engine.Failf("toJSON", "error %v", err)
					}
				}
				step()
				for _, v := range []interface{}{m, sl, pb} {
					got, _ := encoders.ToJSON(v)
					want, _ := json.Marshal(v)
					var g, w interface{}
					if json.Unmarshal([]byte(got), &g) != nil || json.Unmarshal(want, &w) != nil || !reflect.DeepEqual(g, w) {
						return "", engine.Failf("toJSON", "after modification %d toJSON(%#v) gives %q, the value now encodes to %q", si, v, got, want)
					}
				}
			}
			ctx := plush.NewContext()
			mm := map[string]interface{}{"a": 1}
			ctx.Set("m", mm)
			out, err := Render(`<%= toJSON(m) %><% m["a"] = 2 %><%= toJSON(m) %><% m["b"] = [1] %><%= toJSON(m) %>`, ctx)
			want := `{"a":1}{"a":2}{"a":2,"b":[1]}`
			if err != nil || out != want {
				return "", engine.Failf("toJSON", "template: expected %q, got %q / %v", want, out, err)
			}
			return "json-held", nil
		})
		// results are values: an earlier result is still the JSON of its own argument after later calls
		// (every ordered pair of a reduced value list, directly and through let bindings in a template)
		var pool []interface{}
		for i, v := range vals {
			if i%7 == 0 || i < 14 {
				pool = append(pool, v)
			}
		}
		pool = append(pool, strings.Repeat("x", 70), strings.Repeat("y", 200), map[string]interface{}{"k": strings.Repeat("z", 90)})
		for i, v1 := range pool {
			for j, v2 := range pool {
				v1, v2 := v1, v2
				if v1 == nil || v2 == nil {
					continue
				}
				t.Case(fmt.Sprintf("toJSON held result #%d then #%d", i, j), true, func() (string, *engine.Fail) {
					r1, err := encoders.ToJSON(v1)
					if err != nil {
						return "", engine.Failf("toJSON", "error %v", err)
					}
					want1 := string(append([]byte{}, r1...)) // private copy of the bytes
					r2, err := encoders.ToJSON(v2)
					if err != nil {
						return "", engine.Failf("toJSON", "error %v", err)
					}
					want2 := string(append([]byte{}, r2...))
					r3, _ := encoders.ToJSON(v1)
					if string(r1) != want1 || string(r2) != want2 || string(r3) != want1 {
						return "", engine.Failf("toJSON", "a result changed after a later call: first %q (was %q), second %q (was %q), third %q", r1, want1, r2, want2, r3)
					}
					ctx := plush.NewContext()
					ctx.Set("v1", v1)
					ctx.Set("v2", v2)
					out, err := Render(`<% let a = toJSON(v1) %><% let b = toJSON(v2) %><% let c = toJSON(v1) %><%= a %>|<%= b %>|<%= c %>`, ctx)
					if err != nil || out != want1+"|"+want2+"|"+want1 {
						return "", engine.Failf("toJSON", "held through let: expected %q, got %q / %v", want1+"|"+want2+"|"+want1, out, err)
					}
					return "json-held", nil
				})
			}
		}
	}
}

func c20TruncCase(t *engine.T, s string, sizes []int) {
	nt := !utf8.ValidString(s) || len(s) != c20Runes(s)
	t.Case("truncate "+q(s), nt || c20Runes(s) > 2, func() (string, *engine.Fail) {
		for _, size := range sizes {
			for _, trail := range c20Trails {
				if f := c20Truncate(s, size, trail, hctx.Map{"size": size, "trail": trail}); f != nil {
					return "", f
				}
			}
		}
		return "law-holds", nil
	})
}
