package props

import (
	"fmt"
	"html/template"
	"reflect"
	"sort"
	"strings"

	"verifmc/engine"

	plush "github.com/gobuffalo/plush/v5"
	"github.com/gobuffalo/plush/v5/helpers/iterators"
	"github.com/gobuffalo/plush/v5/helpers/meta"
	"github.com/gobuffalo/plush/v5/vtick"
)

// C19 — iterator and collection helpers produce exact sequences and partitions.

const (
	c19Max = int(^uint(0) >> 1)
	c19Min = -c19Max - 1
)

var c19Thorough bool

func c19Domain() []int {
	var d []int
	w := 8
	if c19Thorough {
		w = 40
	}
	for i := -w; i <= w; i++ {
		d = append(d, i)
	}
	d = append(d, c19Min, c19Min+1, c19Max-1, c19Max)
	if c19Thorough {
		d = append(d, c19Min+2, c19Min+23, c19Max-2, c19Max-23, c19Max/2, c19Min/2)
	}
	return d
}

type nexter interface{ Next() interface{} }

// c19Drain checks that it yields lo, lo+1, ... hi (inclusive; empty if lo>hi) and then stays exhausted.
func c19Drain(it nexter, lo, hi int, empty bool) *engine.Fail {
	const window = 24
	if empty {
		for k := 0; k < 3; k++ {
			if v := it.Next(); v != nil {
				return engine.Failf("sequence", "expected an empty sequence, Next() returned %v", v)
			}
		}
		return nil
	}
	cur := lo
	for k := 0; k < window; k++ {
		v := it.Next()
		if v == nil {
			return engine.Failf("sequence", "ended early: expected %d next (interval %d..%d)", cur, lo, hi)
		}
		if iv, ok := v.(int); !ok || iv != cur {
			return engine.Failf("sequence", "expected %d, Next() returned %v (interval %d..%d)", cur, v, lo, hi)
		}
		if cur == hi {
			for j := 0; j < 3; j++ {
				if v := it.Next(); v != nil {
					return engine.Failf("sequence", "not exhausted after %d: Next() returned %v (interval %d..%d)", hi, v, lo, hi)
				}
			}
			return nil
		}
		cur++
	}
	return nil // long interval: first 24 values verified
}

type c19Elem struct{ ID int }

func c19Slice(kind string, n int) interface{} {
	switch kind {
	case "string":
		s := make([]string, n)
		for i := range s {
			s[i] = fmt.Sprint("s", i)
		}
		return s
	case "int":
		s := make([]int, n)
		for i := range s {
			s[i] = i
		}
		return s
	case "struct":
		s := make([]c19Elem, n)
		for i := range s {
			s[i] = c19Elem{i}
		}
		return s
	case "pointer":
		s := make([]*c19Elem, n)
		for i := range s {
			s[i] = &c19Elem{i}
		}
		return s
	}
	return nil
}

func c19Groups(it nexter, budget int) ([]reflect.Value, *engine.Fail) {
	var gs []reflect.Value
	for k := 0; k <= budget; k++ {
		g := it.Next()
		if g == nil {
			// stays exhausted
			if it.Next() != nil {
				return nil, engine.Failf("groupBy", "iterator yields a group after signalling exhaustion")
			}
			return gs, nil
		}
		gs = append(gs, reflect.ValueOf(g))
	}
	return nil, engine.Failf("groupBy", "more than %d groups (non-terminating?)", budget)
}

func c19CheckPartition(xs reflect.Value, n int, gs []reflect.Value) *engine.Fail {
	if xs.Kind() == reflect.Ptr {
		xs = xs.Elem()
	}
	if len(gs) > n {
		return engine.Failf("groupBy", "%d groups for n=%d", len(gs), n)
	}
	pos := 0
	for gi, g := range gs {
		if g.Kind() != reflect.Slice && g.Kind() != reflect.Array {
			return engine.Failf("groupBy", "group %d is a %s, not a sub-sequence of xs", gi, g.Type())
		}
		if g.Type().Elem() != xs.Type().Elem() {
			return engine.Failf("groupBy", "group %d has element type %s, xs has %s", gi, g.Type().Elem(), xs.Type().Elem())
		}
		if gi < len(gs)-1 && g.Len() != gs[0].Len() {
			return engine.Failf("groupBy", "group %d has size %d, group 0 has %d (all but the last must be equal)", gi, g.Len(), gs[0].Len())
		}
		if gi == len(gs)-1 && g.Len() > gs[0].Len() {
			return engine.Failf("groupBy", "last group larger (%d) than the others (%d)", g.Len(), gs[0].Len())
		}
		if g.Len() == 0 {
			return engine.Failf("groupBy", "empty group %d", gi)
		}
		for j := 0; j < g.Len(); j++ {
			if pos >= xs.Len() || !reflect.DeepEqual(g.Index(j).Interface(), xs.Index(pos).Interface()) {
				return engine.Failf("groupBy", "group %d element %d is not xs[%d]", gi, j, pos)
			}
			pos++
		}
	}
	if pos != xs.Len() {
		return engine.Failf("groupBy", "groups cover %d of %d elements", pos, xs.Len())
	}
	return nil
}

func init() {
	engine.Register(&engine.Prop{
		ID: "C19",
		Shards: func(th bool) []string {
			return []string{"range", "long", "alive", "between", "until", "template", "groupBy:string", "groupBy:int", "groupBy:struct", "groupBy:pointer", "groupBy:errors", "len"}
		},
		Run:  c19Run,
		Rule: "range(a,b), between(a,b) for all pairs and until(n) for all n over [-8,8] ∪ {MinInt, MinInt+1, MaxInt-1, MaxInt}: drained under a Next() budget (first 24 values of long intervals), exact values, exhaustion is sticky; (long) until(70000), range(-70000,70000), between(-1,66000) drained completely and range / between over [p-3,p+3] for every power of two p = ±2^1..±2^62, a template loop over range(-300,1200) whose body records every key and value; template loops over range / between / until / groupBy whose body continues or breaks at every one or two element positions: every other element reaches the body in order; the same intervals (small ones) through a template for loop with a running count; (alive) every triple of 5 iterators: the first drained and polled 0..3 more times, then the other two created and read interleaved while the first is polled again - each yields exactly its own sequence, exhaustion is for ever. groupBy in both shipped implementations (helpers/iterators.GroupBy and plush.GroupByHelper) for every length 0..40 x n in -1..12 (and n in {1000, 2^20, 2^40, MaxInt/2+1, MaxInt-1, MaxInt, MinInt} for lengths <=6) x element type {string,int,struct,pointer} x {slice, pointer to slice, array, pointer to array, slice / pointer to slice with spare capacity holding other elements}: n<=0 is an error, otherwise <=n non-empty consecutive groups of xs's element type whose concatenation is xs, all but the last of equal size, and both implementations agree group by group, also while other groupBy iterators are alive and partly read (and nested in a template; a value built from a group with + leaves the later groups and xs as they were); non-sequences are errors. len(x) equals Go's len for string/slice/array/map/pointer to one, directly and through a template. Non-trivial: non-empty sequences.",
		Bound: func(th bool) string {
			return "int domain [-8,8] plus 4 extremes (all pairs); lengths 0..40 x n -1..12 x 4 element types x 4 container shapes"
		},
	})
}

func c19Run(t *engine.T, shard string) {
	c19Thorough = t.Thorough
	maxLen, maxN := 40, 12
	if t.Thorough {
		maxLen, maxN = 120, 30
	}
	D := c19Domain()
	switch {
	case shard == "range":
		for _, a := range D {
			for _, b := range D {
				t.Case(fmt.Sprintf("range(%d,%d)", a, b), a <= b, func() (string, *engine.Fail) {
					if f := c19Drain(iterators.Range(a, b), a, b, a > b); f != nil {
						return "", f
					}
					if a > b {
						return "empty", nil
					}
					return "sequence", nil
				})
			}
		}
	case shard == "long":
		// long sequences drained completely, and short ones around every power of two: every value, no gaps
		for _, c := range []struct {
			name   string
			it     nexter
			lo, hi int
		}{
			{"until(70000)", iterators.Until(70000), 0, 69999}, {"range(-70000,70000)", iterators.Range(-70000, 70000), -70000, 70000}, {"between(-1,66000)", iterators.Between(-1, 66000), 0, 65999},
		} {
			c := c
			t.Case("long "+c.name, true, func() (string, *engine.Fail) {
				for v := c.lo; v <= c.hi; v++ {
					if got := c.it.Next(); got != v {
						return "", engine.Failf("sequence", "%s: expected %d, Next() returned %v", c.name, v, got)
					}
				}
				if got := c.it.Next(); got != nil {
					return "", engine.Failf("sequence", "%s: not exhausted after %d: %v", c.name, c.hi, got)
				}
				return "sequence", nil
			})
		}
		for k := 1; k <= 62; k++ {
			for _, sign := range []int{1, -1} {
				p := sign * (1 << uint(k))
				lo, hi := p-3, p+3
				t.Case(fmt.Sprintf("long range around %d", p), true, func() (string, *engine.Fail) {
					if f := c19Drain(iterators.Range(lo, hi), lo, hi, false); f != nil {
						return "", f
					}
					if f := c19Drain(iterators.Between(lo-1, hi+1), lo, hi, false); f != nil {
						return "", f
					}
					return "sequence", nil
				})
			}
		}
		// the same through a template loop: the body sees every value once
		t.Case("long template until(1500) summed", true, func() (string, *engine.Fail) {
			vtick.Reset(400_000_000)
			var got []int
			ctx := plush.NewContext()
			ctx.Set("see", func(k, v int) string { got = append(got, k, v); return "" })
			ctx.Set("lo", -300)
			if _, err := Render(`<%= for (k, v) in range(lo, 1200) { %><%= see(k, v) %><% } %>`, ctx); err != nil {
				return "", engine.Failf("sequence", "unexpected error %v", err)
			}
			if len(got) != 2*1501 {
				return "", engine.Failf("sequence", "body ran %d times, expected 1501", len(got)/2)
			}
			for i := 0; i < len(got); i += 2 {
				if got[i] != i/2 || got[i+1] != i/2-300 {
					return "", engine.Failf("sequence", "iteration %d saw key %d value %d, expected %d / %d", i/2, got[i], got[i+1], i/2, i/2-300)
				}
			}
			return "template-match", nil
		})
	case shard == "alive":
		// several iterators alive at once, old ones polled again after exhaustion: every iterator yields exactly
		// its own sequence and, once exhausted, nil for ever - whatever other iterators are created or polled meanwhile
		type spec struct {
			name   string
			mk     func() iterators.Iterator
			lo, hi int
		}
		specs := []spec{
			{"range(1,2)", func() iterators.Iterator { return iterators.Range(1, 2) }, 1, 2},
			{"until(3)", func() iterators.Iterator { return iterators.Until(3) }, 0, 2},
			{"between(4,8)", func() iterators.Iterator { return iterators.Between(4, 8) }, 5, 7},
			{"range(100,102)", func() iterators.Iterator { return iterators.Range(100, 102) }, 100, 102},
			{"range(5,4)", func() iterators.Iterator { return iterators.Range(5, 4) }, 5, 4},
		}
		for ai, a := range specs {
			for bi, b := range specs {
				for ci, c := range specs {
					for extra := 0; extra <= 3; extra++ {
						a, b, c, extra := a, b, c, extra
						t.Case(fmt.Sprintf("alive %s drained, polled %d more times, then %s and %s interleaved", a.name, extra, b.name, c.name), true, func() (string, *engine.Fail) {
							drain := func(it iterators.Iterator, s spec, what string) *engine.Fail {
								for v := s.lo; v <= s.hi; v++ {
									if got := it.Next(); got != v {
										return engine.Failf("sequence", "%s %s: expected %d, got %v", what, s.name, v, got)
									}
								}
								return nil
							}
							ia := a.mk()
							if f := drain(ia, a, "first iterator"); f != nil {
								return "", f
							}
							for i := 0; i <= extra; i++ {
								if got := ia.Next(); got != nil {
									return "", engine.Failf("sequence", "exhausted %s yields %v on extra poll %d", a.name, got, i+1)
								}
							}
							ib, ic := b.mk(), c.mk()
							if got := ia.Next(); got != nil {
								return "", engine.Failf("sequence", "exhausted %s yields %v after %s and %s were created", a.name, got, b.name, c.name)
							}
							// interleave b and c one value at a time
							vb, vc := b.lo, c.lo
							for vb <= b.hi || vc <= c.hi {
								if vb <= b.hi {
									if got := ib.Next(); got != vb {
										return "", engine.Failf("sequence", "%s (alive together with %s): expected %d, got %v", b.name, c.name, vb, got)
									}
									vb++
								}
								if vc <= c.hi {
									if got := ic.Next(); got != vc {
										return "", engine.Failf("sequence", "%s (alive together with %s): expected %d, got %v", c.name, b.name, vc, got)
									}
									vc++
								}
								if got := ia.Next(); got != nil {
									return "", engine.Failf("sequence", "exhausted %s yields %v while later iterators are read", a.name, got)
								}
							}
							if ib.Next() != nil || ic.Next() != nil || ia.Next() != nil || ib.Next() != nil {
								return "", engine.Failf("sequence", "an exhausted iterator yields a value")
							}
							return "alive", nil
						})
					}
					_ = ci
				}
				_ = bi
			}
			_ = ai
		}
		// the same through a template: an iterator held in a variable and looped over again later
		t.Case("alive template", true, func() (string, *engine.Fail) {
			out, err := Render(`<% let a = range(1, 2) %><%= for (v) in a { %><%= v %>,<% } %>|<% let b = until(3) %><%= for (v) in a { %><%= v %>,<% } %>|<%= for (v) in b { %><%= v %>,<% } %>|<%= for (v) in a { %><%= v %>,<% } %><%= for (v) in range(7, 8) { %><%= for (w) in range(1, 2) { %><%= v %><%= w %>,<% } %><% } %>`, plush.NewContext())
			want := "1,2,||0,1,2,|71,72,81,82,"
			if err != nil || out != want {
				return "", engine.Failf("sequence", "expected %q, got %q / %v", want, out, err)
			}
			return "alive", nil
		})
	case shard == "between":
		for _, a := range D {
			for _, b := range D {
				empty := a >= b || a+1 > b-1 || a == c19Max || b == c19Min
				t.Case(fmt.Sprintf("between(%d,%d)", a, b), !empty, func() (string, *engine.Fail) {
					if f := c19Drain(iterators.Between(a, b), a+1, b-1, empty); f != nil {
						return "", f
					}
					if empty {
						return "empty", nil
					}
					return "sequence", nil
				})
			}
		}
	case shard == "until":
		for _, n := range D {
			empty := n <= 0
			t.Case(fmt.Sprintf("until(%d)", n), !empty, func() (string, *engine.Fail) {
				if f := c19Drain(iterators.Until(n), 0, n-1, empty); f != nil {
					return "", f
				}
				if empty {
					return "empty", nil
				}
				return "sequence", nil
			})
		}
	case shard == "template":
		small := []int{-3, -1, 0, 1, 2, 4}
		all := append(append([]int{}, small...), c19Min, c19Max)
		for _, a := range all {
			for _, b := range all {
				for _, h := range []string{"range", "between"} {
					lo, hi := a, b
					empty := a > b
					if h == "between" {
						lo, hi = a+1, b-1
						empty = a >= b || a == c19Max || b == c19Min || lo > hi
					}
					if !empty && (hi-lo > 20 || hi-lo < 0) {
						continue // long interval: covered by the direct check
					}
					src := `<%= for (k, v) in ` + h + `(va, vb) { %><%= k %>:<%= v %>,<% } %>`
					var want strings.Builder
					if !empty {
						for i, v := 0, lo; ; i, v = i+1, v+1 {
							fmt.Fprintf(&want, "%d:%d,", i, v)
							if v == hi {
								break
							}
						}
					}
					t.Case(fmt.Sprintf("template %s(%d,%d)", h, a, b), !empty, func() (string, *engine.Fail) {
						ctx := plush.NewContext()
						ctx.Set("va", a)
						ctx.Set("vb", b)
						out, err := Render(src, ctx)
						if err != nil || out != want.String() {
							return "", engine.Failf("sequence", "expected %q, got %q / %v", want.String(), out, err)
						}
						return "template-match", nil
					})
				}
			}
		}
		for _, n := range all {
			if n > 20 {
				continue
			}
			src := `<%= for (k, v) in until(vn) { %><%= k %>:<%= v %>,<% } %>`
			var want strings.Builder
			for i := 0; i < n; i++ {
				fmt.Fprintf(&want, "%d:%d,", i, i)
			}
			t.Case(fmt.Sprintf("template until(%d)", n), n > 0, func() (string, *engine.Fail) {
				ctx := plush.NewContext()
				ctx.Set("vn", n)
				out, err := Render(src, ctx)
				if err != nil || out != want.String() {
					return "", engine.Failf("sequence", "expected %q, got %q / %v", want.String(), out, err)
				}
				return "template-match", nil
			})
		}
		// loops over the helpers' sequences whose body skips (continue) or stops (break) at element number j: every
		// other element of the sequence still reaches the body, in order, with the running count
		for _, h := range []struct {
			src  string
			vals []string
		}{
			{`range(1, 6)`, []string{"1", "2", "3", "4", "5", "6"}}, {`between(0, 5)`, []string{"1", "2", "3", "4"}}, {`until(5)`, []string{"0", "1", "2", "3", "4"}},
			{`groupBy(4, seven)`, []string{"ab", "cd", "ef", "g"}}, {`range(m2, 1)`, []string{"-2", "-1", "0", "1"}}, {`range(3, 3)`, []string{"3"}},
		} {
			for j := 0; j <= len(h.vals); j++ {
				for j2 := j; j2 <= len(h.vals); j2++ {
					for _, ctl := range []string{"continue", "break"} {
						h, j, j2, ctl := h, j, j2, ctl
						src := `<%= for (k, v) in ` + h.src + ` { %><% if (k == ` + fmt.Sprint(j) + ` || k == ` + fmt.Sprint(j2) + `) { ` + ctl + ` } %><%= k %>:<%= v %>,<% } %>`
						var want strings.Builder
						for k, v := range h.vals {
							if k == j || k == j2 {
								if ctl == "break" {
									break
								}
								continue
							}
							fmt.Fprintf(&want, "%d:%s,", k, v)
						}
						t.Case(fmt.Sprintf("template %s with %s at elements %d and %d", h.src, ctl, j, j2), true, func() (string, *engine.Fail) {
							ctx := plush.NewContext()
							ctx.Set("seven", []string{"a", "b", "c", "d", "e", "f", "g"})
							ctx.Set("m2", -2)
							out, err := Render(src, ctx)
							if err != nil || out != want.String() {
								return "", engine.Failf("sequence", "expected %q, got %q / %v", want.String(), out, err)
							}
							return "template-match", nil
						})
					}
				}
			}
		}
		// nested groupBy loops (two iterators alive at once)
		t.Case("template nested groupBy", true, func() (string, *engine.Fail) {
			ctx := plush.NewContext()
			ctx.Set("xs", []string{"1", "2", "3", "4", "5", "6", "7", "8"})
			out, err := Render(`<%= for (g) in groupBy(2, xs) { %>[<%= for (h) in groupBy(2, g) { %>(<%= h %>)<% } %>]<% } %>`, ctx)
			if err != nil || out != "[(12)(34)][(56)(78)]" {
				return "", engine.Failf("groupBy", "nested groupBy: expected %q, got %q / %v", "[(12)(34)][(56)(78)]", out, err)
			}
			return "template-match", nil
		})
		// a value built from a group with + does not disturb the later groups or xs
		t.Case("template append to each group", true, func() (string, *engine.Fail) {
			ctx := plush.NewContext()
			ctx.Set("xs", []interface{}{1, 2, 3, 4, 5})
			out, err := Render(`<% let a = [1, 2, 3, 4, 5] %><%= for (g) in groupBy(2, a) { %><% let g2 = g + 9 %>(<%= g %>/<%= g2 %>)<% } %>|<%= a %>|<%= for (g) in groupBy(3, xs) { %><% let g2 = g + 9 %>(<%= g %>/<%= g2 %>)<% } %>|<%= xs %>`, ctx)
			want := "(123/1239)(45/459)|12345|(12/129)(34/349)(5/59)|12345"
			if err != nil || out != want {
				return "", engine.Failf("groupBy", "appending to a group: expected %q, got %q / %v", want, out, err)
			}
			return "append-to-group", nil
		})
		// groupBy through a template
		for L := 0; L <= 7; L++ {
			for n := 1; n <= 8; n++ {
				xs := c19Slice("string", L).([]string)
				src := `<%= for (g) in groupBy(n, xs) { %>(<%= for (x) in g { %><%= x %>,<% } %>)<% } %>`
				t.Case(fmt.Sprintf("template groupBy(%d, len %d)", n, L), L > 0, func() (string, *engine.Fail) {
					ctx := plush.NewContext()
					ctx.Set("n", n)
					ctx.Set("xs", xs)
					out, err := Render(src, ctx)
					if err != nil {
						return "", engine.Failf("groupBy", "unexpected error %v", err)
					}
					flat := strings.NewReplacer("(", "", ")", "").Replace(out)
					if flat != strings.Join(xs, ",")+map[bool]string{true: ",", false: ""}[L > 0] {
						return "", engine.Failf("groupBy", "concatenation of groups %q is not xs", out)
					}
					if strings.Count(out, "(") > n {
						return "", engine.Failf("groupBy", "more than %d groups in %q", n, out)
					}
					return "template-match", nil
				})
			}
		}
	case strings.HasPrefix(shard, "groupBy:") && shard != "groupBy:errors":
		kind := strings.TrimPrefix(shard, "groupBy:")
		for L := 0; L <= maxLen; L++ {
			ns := []int{}
			for n := -1; n <= maxN; n++ {
				ns = append(ns, n)
			}
			if L <= 6 {
				// group counts far beyond the length, up to the extremes of int
				ns = append(ns, 1000, 1<<20, 1<<40, c19Max/2+1, c19Max-1, c19Max, c19Min)
			}
			for _, n := range ns {
				for _, shape := range []string{"slice", "ptr-slice", "array", "ptr-array", "slice-with-spare-capacity", "ptr-slice-with-spare-capacity"} {
					mk := func() interface{} {
						sl := c19Slice(kind, L)
						if strings.HasSuffix(shape, "spare-capacity") {
							// the first L elements of a longer backing array: what lies beyond len is not part of xs
							sl = reflect.ValueOf(c19Slice(kind, L+5)).Slice(0, L).Interface()
						}
						switch shape {
						case "slice", "slice-with-spare-capacity":
							return sl
						case "ptr-slice-with-spare-capacity":
							p := reflect.New(reflect.TypeOf(sl))
							p.Elem().Set(reflect.ValueOf(sl))
							return p.Interface()
						case "ptr-slice":
							p := reflect.New(reflect.TypeOf(sl))
							p.Elem().Set(reflect.ValueOf(sl))
							return p.Interface()
						}
						at := reflect.ArrayOf(L, reflect.TypeOf(sl).Elem())
						a := reflect.New(at)
						reflect.Copy(a.Elem(), reflect.ValueOf(sl))
						if shape == "array" {
							return a.Elem().Interface()
						}
						return a.Interface()
					}
					t.Case(fmt.Sprintf("groupBy(%d, %s of %d %s)", n, shape, L, kind), L > 0 && n > 0, func() (string, *engine.Fail) {
						xs := mk()
						it1, err1 := iterators.GroupBy(n, xs)
						// further iterators created (and partly read) while it1 is still undrained must not disturb it
						if other, e := iterators.GroupBy(2, c19Slice(kind, L+3)); e == nil {
							other.Next()
						}
						if other, e := iterators.GroupBy(3, c19Slice("int", 7)); e == nil {
							other.Next()
						}
						it2, err2 := plush.GroupByHelper(n, mk())
						if other, e := plush.GroupByHelper(2, c19Slice(kind, L+3)); e == nil {
							other.Next()
						}
						if n <= 0 {
							if err1 == nil || err2 == nil {
								return "", engine.Failf("groupBy", "n=%d must be an error (errors: %v / %v)", n, err1, err2)
							}
							return "error", nil
						}
						if err1 != nil || err2 != nil {
							return "", engine.Failf("groupBy", "unexpected error %v / %v", err1, err2)
						}
						g1, f := c19Groups(it1, min(n, L+1)+2)
						if f != nil {
							return "", f
						}
						g2, f := c19Groups(it2, min(n, L+1)+2)
						if f != nil {
							return "", f
						}
						if f := c19CheckPartition(reflect.ValueOf(xs), n, g1); f != nil {
							f.Msg = "helpers/iterators.GroupBy: " + f.Msg
							return "", f
						}
						if f := c19CheckPartition(reflect.ValueOf(xs), n, g2); f != nil {
							f.Msg = "plush.GroupByHelper: " + f.Msg
							return "", f
						}
						if len(g1) != len(g2) {
							return "", engine.Failf("groupBy", "implementations disagree: %d vs %d groups", len(g1), len(g2))
						}
						for i := range g1 {
							if g1[i].Type() != g2[i].Type() || !reflect.DeepEqual(g1[i].Interface(), g2[i].Interface()) {
								return "", engine.Failf("groupBy", "implementations disagree on group %d: %v (%s) vs %v (%s)", i, g1[i], g1[i].Type(), g2[i], g2[i].Type())
							}
						}
						return fmt.Sprintf("groups-%d", min(len(g1), 5)), nil
					})
				}
			}
		}
	case shard == "groupBy:errors":
		for _, v := range []interface{}{nil, 5, "str", map[string]int{"a": 1}, c19Elem{1}, &c19Elem{1}, true, 1.5, func() {}} {
			v := v
			t.Case(fmt.Sprintf("groupBy(2, %T)", v), true, func() (string, *engine.Fail) {
				var e1, e2 error
				p, _, _ := engine.Guard(100000, func() {
					_, e1 = iterators.GroupBy(2, v)
					_, e2 = plush.GroupByHelper(2, v)
				})
				if p != nil {
					return "", engine.Failf("panic", "groupBy panicked on a non-sequence: %v", p)
				}
				if e1 == nil || e2 == nil {
					return "", engine.Failf("groupBy", "non-sequence %T must be an error (%v / %v)", v, e1, e2)
				}
				return "error", nil
			})
		}
	case shard == "len":
		type lc struct {
			name string
			v    interface{}
			want int
		}
		var cases []lc
		for n := 0; n <= 6; n++ {
			s := strings.Repeat("é", n)
			sl := c19Slice("int", n).([]int)
			m := map[int]int{}
			for i := 0; i < n; i++ {
				m[i] = i
			}
			at := reflect.New(reflect.ArrayOf(n, reflect.TypeOf(0)))
			cases = append(cases,
				lc{fmt.Sprintf("string(%d runes)", n), s, len(s)},
				lc{fmt.Sprintf("[]int(%d)", n), sl, n}, lc{fmt.Sprintf("*[]int(%d)", n), &sl, n},
				lc{fmt.Sprintf("map(%d)", n), m, n}, lc{fmt.Sprintf("*map(%d)", n), &m, n},
				lc{fmt.Sprintf("[%d]int", n), at.Elem().Interface(), n}, lc{fmt.Sprintf("*[%d]int", n), at.Interface(), n},
				lc{fmt.Sprintf("*string(%d)", n), &s, len(s)},
			)
		}
		// named types, also ones that have a Len / Length / Size / String method of their own: still the Go length
		nsl, nmp, nst, nar := c19LenSlice{1, 2, 3, 4, 5}, c19LenMap{"a": 1, "b": 2}, c19LenString("sixby!"), c19LenArray{1, 2, 3}
		cases = append(cases, lc{"named slice with a Len method", nsl, 5}, lc{"pointer to a named slice with a Len method", &nsl, 5}, lc{"named map with a Len method", nmp, 2}, lc{"pointer to a named map with a Len method", &nmp, 2},
			lc{"named string with Len and String methods", nst, 6}, lc{"pointer to a named string with a Len method", &nst, 6}, lc{"named array with a Len method", nar, 3}, lc{"pointer to a named array with a Len method", &nar, 3},
			lc{"sort.StringSlice", sort.StringSlice{"a", "b"}, 2}, lc{"template.HTML", template.HTML("<b>"), 3}, lc{"named empty slice with a Len method", c19LenSlice{}, 0})
		cases = append(cases, lc{"nil", nil, 0}, lc{"nil slice", []int(nil), 0}, lc{"nil map", map[string]int(nil), 0},
			// Go's len of a nil pointer to an array is the array type's length; nil pointers to slices / maps / strings have length 0
			lc{"nil *[3]int", (*[3]int)(nil), 3}, lc{"nil *[0]int", (*[0]int)(nil), 0}, lc{"nil *[]int", (*[]int)(nil), 0}, lc{"nil *map", (*map[string]int)(nil), 0}, lc{"nil *string", (*string)(nil), 0})
		for _, c := range cases {
			c := c
			t.Case("len "+c.name, c.want > 0, func() (string, *engine.Fail) {
				if got := meta.Len(c.v); got != c.want {
					return "", engine.Failf("len", "len(%s) = %d, Go length is %d", c.name, got, c.want)
				}
				ctx := plush.NewContext()
				ctx.Set("x", c.v)
				out, err := Render(`<%= len(x) %>`, ctx)
				if c.v == nil {
					return "len-match", nil // a nil variable is an unknown identifier in templates
				}
				if err != nil || out != fmt.Sprint(c.want) {
					return "", engine.Failf("len", "template len(%s) rendered %q / %v, Go length is %d", c.name, out, err, c.want)
				}
				return "len-match", nil
			})
		}
	}
}

type c19LenSlice []int

func (c19LenSlice) Len() int    { return 2 }
func (c19LenSlice) Length() int { return 7 }
func (c19LenSlice) Size() int   { return 8 }

type c19LenMap map[string]int

func (c19LenMap) Len() int { return 9 }

type c19LenString string

func (c19LenString) Len() int       { return 5 }
func (c19LenString) String() string { return "longer than six bytes" }

type c19LenArray [3]int

func (c19LenArray) Len() int { return 1 }
