package props

// Corpus is a set of valid templates covering every construct; it is the base
// of the byte-edit/truncation family of C03 and of the program families of
// C13/C18. Every entry renders without error under corpusContext().
var Corpus = []string{
	`hello <b>world</b>`,
	`<%= "a" %>`,
	`<%= 1 + 2 * 3 %>`,
	`<%= x %> and <%= s %>`,
	`<% let a = 1 %><%= a + 2 %>`,
	`<% let a = "q" %><% a = "r" %><%= a %>`,
	`<%= if (x == 1) { %>one<% } else if (x == 2) { %>two<% } else { %>many<% } %>`,
	`<%= if (!t && f || x > 0) { return "y" } %>`,
	`<%= for (i, v) in xs { %>[<%= i %>:<%= v %>]<% } %>`,
	`<%= for (v) in xs { if (v == 2) { continue } %><%= v %><% } %>`,
	`<%= for (v) in xs { %><%= v %><% if (v == 2) { break } } %>`,
	`<%= for (k, v) in m1 { %><%= k %>=<%= v %><% } %>`,
	`<%= for (v) in range(1, 3) { %><%= v %>,<% } %>`,
	`<% let f = fn(a, b) { return a + b } %><%= f(1, 2) %>`,
	`<% let g = fn(a) { if (a) { return "T" } return "F" } %><%= g(true) %><%= g(false) %>`,
	`<%= [1, 2, 3][1] %>|<%= {"k": "v"}["k"] %>`,
	`<% let h = {"a": 1, "b": [2, 3]} %><%= h["b"][0] %>`,
	`<%= st.Name %> <%= st.Kid.Name %> <%= st.Kids[0].Name %>`,
	`<%= st.Hello() %> <%= st.Kids[1].Name %>`,
	`<%= len(xs) %> <%= truncate("abcdef", {"size": 4, "trail": "."}) %>`,
	`<%= raw("<i>") %><%= "<i>" %>`,
	`<%# a comment %>x<%# another
 one %>y`,
	`<% # line comment
 let z = 3 %><%= z %>`,
	`a\<%= 1 %>b\\<%= 2 %>c`,
	`<%= "say \"hi\"" %> <%= ` + "`raw \" %> q`" + ` %>`,
	`<% contentFor("c") { %>[<%= n %>]<% } %><%= contentOf("c", {"n": 7}) %>`,
	`<%= blk() { %>in<%= x %><% } %>`,
	`<%= partial("p1", {"w": 5}) %>`,
	`<%= s ~= "^h" %> <%= 2.5 * 2.0 %> <%= "a" + 1 %>`,
	`<% let arr = [1, 2] %><% arr[0] = 9 %><%= arr[0] %>`,
	`<%= for (v) in xs { %><%= for (w) in ys { %><%= v %><%= w %>;<% } %><% } %>`,
	"line1\n<%= 1 %>\nline3\r\n<%\n let q = 2\n%>\n<%= q %>",
	`<%= if (nope) { %>x<% } %><%= !nope %><%= nope == nil %>`,
	`<%= (1 + 2) * (3 - 1) / 2 %>`,
	`<%= true %><%= false == false %><%= nil == nil %>`,
}
