package props

import (
	"fmt"
	"github.com/gobuffalo/plush/v5/vtick"
	"html/template"
	"sort"
	"strings"

	"verifmc/engine"
	"verifmc/mapctl"

	plush "github.com/gobuffalo/plush/v5"
)

// C08 — for loops visit every element once, in order; break/continue.

type c08KV struct{ k, v string }

type c08Iter struct {
	name    string
	src     func(n int) string // template expression
	elems   func(n int) []c08KV
	ordered bool
	maxN    int
}

var c08QuickFull = map[string]bool{"[]int": true, "map[string]int": true, "range": true, "iterator": true, "[n]int-all-zero": true, "hash-literal": true}

var c08Ints = []int{10, 20, 30, 40}
var c08Strs = []string{"p", "q", "r", "s"}

func kvInts(n int) []c08KV {
	var o []c08KV
	for i := 0; i < n; i++ {
		o = append(o, c08KV{fmt.Sprint(i), fmt.Sprint(c08Ints[i])})
	}
	return o
}

func kvStrs(n int) []c08KV {
	var o []c08KV
	for i := 0; i < n; i++ {
		o = append(o, c08KV{fmt.Sprint(i), c08Strs[i]})
	}
	return o
}

func kvCount(from, n int) []c08KV {
	var o []c08KV
	for i := 0; i < n; i++ {
		o = append(o, c08KV{fmt.Sprint(i), fmt.Sprint(from + i)})
	}
	return o
}

func named(prefix string) func(int) string {
	return func(n int) string { return fmt.Sprintf("%s%d", prefix, n) }
}

var c08Iters = []c08Iter{
	{"[]int", named("si"), kvInts, true, 4},
	{"[]string", named("ss"), kvStrs, true, 4},
	{"[]interface{}", named("sx"), kvInts, true, 4},
	{"[n]int", named("ar"), kvInts, true, 4},
	{"*[]int", named("ps"), kvInts, true, 4},
	{"*[n]int", named("pa"), kvInts, true, 4},
	{"[n]int-all-zero", named("az"), func(n int) []c08KV {
		var o []c08KV
		for i := 0; i < n; i++ {
			o = append(o, c08KV{fmt.Sprint(i), "0"})
		}
		return o
	}, true, 3},
	{"array-literal", func(n int) string {
		var p []string
		for i := 0; i < n; i++ {
			p = append(p, fmt.Sprint(c08Ints[i]))
		}
		return "[" + strings.Join(p, ", ") + "]"
	}, kvInts, true, 4},
	{"map[string]int", named("ms"), func(n int) []c08KV {
		var o []c08KV
		for i := 0; i < n; i++ {
			o = append(o, c08KV{c08Strs[i], fmt.Sprint(c08Ints[i])})
		}
		return o
	}, false, 4},
	{"map[int]string", named("mi"), func(n int) []c08KV {
		var o []c08KV
		for i := 0; i < n; i++ {
			o = append(o, c08KV{fmt.Sprint(c08Ints[i]), c08Strs[i]})
		}
		return o
	}, false, 4},
	{"*map[string]int", named("pm"), func(n int) []c08KV {
		var o []c08KV
		for i := 0; i < n; i++ {
			o = append(o, c08KV{c08Strs[i], fmt.Sprint(c08Ints[i])})
		}
		return o
	}, false, 3},
	{"hash-literal", func(n int) string {
		var p []string
		for i := 0; i < n; i++ {
			p = append(p, fmt.Sprintf("%q: %d", c08Strs[i], c08Ints[i]))
		}
		return "{" + strings.Join(p, ", ") + "}"
	}, func(n int) []c08KV {
		var o []c08KV
		for i := 0; i < n; i++ {
			o = append(o, c08KV{c08Strs[i], fmt.Sprint(c08Ints[i])})
		}
		return o
	}, false, 4},
	{"range", func(n int) string { return fmt.Sprintf("range(5, %d)", 4+n) }, func(n int) []c08KV { return kvCount(5, n) }, true, 4},
	{"between", func(n int) string { return fmt.Sprintf("between(5, %d)", 6+n) }, func(n int) []c08KV { return kvCount(6, n) }, true, 4},
	{"until", func(n int) string { return fmt.Sprintf("until(%d)", n) }, func(n int) []c08KV { return kvCount(0, n) }, true, 4},
	{"iterator", named("it"), func(n int) []c08KV { return kvCount(1, n) }, true, 4},
	{"groupBy", func(n int) string { return fmt.Sprintf("groupBy(%d, ss4)", n) }, func(n int) []c08KV {
		// 4 elements into n groups: sizes ceil(4/n); a []string group prints as the concatenation of its members
		switch n {
		case 1:
			return []c08KV{{"0", "pqrs"}}
		case 2:
			return []c08KV{{"0", "pq"}, {"1", "rs"}}
		case 3:
			return []c08KV{{"0", "pq"}, {"1", "rs"}}
		case 4:
			return []c08KV{{"0", "pqrs"}} // len == size: a single group
		}
		return nil
	}, true, 4},
}

func c08Context() *plush.Context {
	c := plush.NewContext()
	for n := 0; n <= 4; n++ {
		si := append([]int{}, c08Ints[:n]...)
		ss := append([]string{}, c08Strs[:n]...)
		sx := make([]interface{}, n)
		ms := map[string]int{}
		mi := map[int]string{}
		for i := 0; i < n; i++ {
			sx[i] = c08Ints[i]
			ms[c08Strs[i]] = c08Ints[i]
			mi[c08Ints[i]] = c08Strs[i]
		}
		c.Set(fmt.Sprintf("si%d", n), si)
		c.Set(fmt.Sprintf("ss%d", n), ss)
		c.Set(fmt.Sprintf("sx%d", n), sx)
		c.Set(fmt.Sprintf("ms%d", n), ms)
		c.Set(fmt.Sprintf("mi%d", n), mi)
		pmm := map[string]int{}
		for k, v := range ms {
			pmm[k] = v
		}
		c.Set(fmt.Sprintf("pm%d", n), &pmm)
		c.Set(fmt.Sprintf("ps%d", n), &si)
		c.Set(fmt.Sprintf("it%d", n), &countIter{max: n})
		switch n {
		case 1:
			c.Set("az1", [1]int{})
		case 2:
			c.Set("az2", &[2]int{})
		case 3:
			c.Set("az3", [3]int{})
		}
		if n == 0 {
			c.Set("az0", [0]int{})
		}
		switch n {
		case 0:
			c.Set("ar0", [0]int{})
			c.Set("pa0", &[0]int{})
		case 1:
			c.Set("ar1", [1]int{10})
			c.Set("pa1", &[1]int{10})
		case 2:
			c.Set("ar2", [2]int{10, 20})
			c.Set("pa2", &[2]int{10, 20})
		case 3:
			c.Set("ar3", [3]int{10, 20, 30})
			c.Set("pa3", &[3]int{10, 20, 30})
		case 4:
			c.Set("ar4", [4]int{10, 20, 30, 40})
			c.Set("pa4", &[4]int{10, 20, 30, 40})
		}
	}
	c.Set("ys", []string{"a", "b"})
	c.Set("blk", func(help plush.HelperContext) (template.HTML, error) {
		s, err := help.Block()
		return template.HTML("{" + s + "}"), err
	})
	c.Set("bwith", func(help plush.HelperContext) (template.HTML, error) {
		s, err := help.BlockWith(help.New()) // the block runs in a context derived from the helper's
		return template.HTML("{" + s + "}"), err
	})
	return c
}

// body items --------------------------------------------------------------

type c08Item struct {
	name string
	src  string
	kind string // emit-lit | emit-v | emit-k | brk-if | cont-if | emit-brk-if | brk | cont | ret | let | inner | inner-brk | inner-cont | inner-silent | nested-brk
}

var c08Items = []c08Item{
	{"x", `x`, "emit-lit"},
	{"v", `<%= v %>`, "emit-v"},
	{"k", `<%= k %>`, "emit-k"},
	{"brk-if", `<% if (hit(v)) { break } %>`, "brk-if"},
	{"cont-if", `<% if (hit(v)) { continue } %>`, "cont-if"},
	{"emit-brk-if", `<% if (hit(v)) { %>!<% break } %>`, "emit-brk-if"},
	{"nested-brk", `<% if (true) { if (hit(v)) { break } } %>`, "brk-if"},
	{"brk", `<% break %>`, "brk"},
	{"cont", `<% continue %>`, "cont"},
	{"ret", `<% return "r" %>`, "ret"},
	{"let", `<% let z = v %><%= z %>`, "emit-v"},
	{"inner", `<%= for (w) in ys { %><%= w %><% } %>`, "inner"},
	{"inner-brk", `<%= for (w) in ys { %><% if (w == "b") { break } %><%= w %><% } %>`, "inner-brk"},
	{"inner-cont", `<%= for (w) in ys { %><% if (w == "a") { continue } %><%= w %><% } %>`, "inner-cont"},
	{"inner-silent", `<% for (w) in ys { } %>`, "inner-silent"},
	{"fn-lit", `<% let g = fn() { return 1 } %>`, "inner-silent"},
	// inner loops that re-use the outer loop's variable names (over an Iterator, a slice, nil)
	{"inner-iter-shadow", `<%= for (k, v) in range(8, 9) { %><%= v %><% } %>`, "inner-89"},
	{"inner-slice-shadow", `<%= for (k, v) in ys { %><%= k %><% } %>`, "inner-01"},
	{"inner-nil-shadow", `<% for (k, v) in nil { %>never<% } %>`, "inner-silent"},
}

// c08Ref is the reference interpreter: output of a loop over elems.
func c08Ref(elems []c08KV, body []int, sentinel bool, target string) string {
	var out strings.Builder
loop:
	for _, e := range elems {
		if sentinel {
			out.WriteString("|" + e.k + ":")
		}
		for _, ix := range body {
			switch c08Items[ix].kind {
			case "emit-lit":
				out.WriteString("x")
			case "emit-v":
				out.WriteString(e.v)
			case "emit-k":
				out.WriteString(e.k)
			case "brk-if":
				if e.v == target {
					break loop
				}
			case "cont-if":
				if e.v == target {
					continue loop
				}
			case "emit-brk-if":
				if e.v == target {
					out.WriteString("!")
					break loop
				}
			case "brk":
				break loop
			case "cont":
				continue loop
			case "ret":
				out.WriteString("r")
				continue loop
			case "inner":
				out.WriteString("ab")
			case "inner-brk":
				out.WriteString("a")
			case "inner-cont":
				out.WriteString("b")
			case "inner-89":
				out.WriteString("89")
			case "inner-01":
				out.WriteString("01")
			case "inner-silent":
			}
		}
	}
	return out.String()
}

var c08Places = []struct{ name, pre, post, opre, opost string }{
	{"top", "", "", "", ""},
	{"in-if", `<%= if (true) { %>`, `<% } %>`, "", ""},
	{"in-fn", `<% let lf = fn() { %>`, `<% } %><%= lf() %>`, "", ""},
	{"in-block", `<%= blk() { %>`, `<% } %>`, "{", "}"},
}

func init() {
	engine.Register(&engine.Prop{
		ID: "C08",
		Shards: func(th bool) []string {
			s := []string{"special"}
			for i := range c08Iters {
				for n := 0; n <= c08Iters[i].maxN; n++ {
					if !th && n == 4 {
						continue
					}
					if !th && (n == 1 || n == 3) && !c08QuickFull[c08Iters[i].name] {
						continue // quick tier: lengths 0 and 2 for most iterable kinds, 0..3 for one of each family
					}
					s = append(s, fmt.Sprintf("it:%d:%d", i, n))
				}
			}
			return s
		},
		Run:  c08Run,
		Rule: "iterables: []int, []string, []interface{}, [n]int, *[]int, *[n]int, arrays whose elements are all zero values, array literal, map[string]int, map[int]string, *map, hash literal, range/between/until, custom Iterator, groupBy, each at every length 0..3 (4 thorough); nil / nil slice / nil map / nil pointer to a slice, array, map or Iterator (render nothing), nil pointer to a struct, int or pointer and int/string/struct/func (must be an error). bodies: every sequence of <=3 (4 thorough) statements over 19 items (emit literal/value/key, if+break, if+continue, emit-then-break, nested-if break, bare break/continue, return, let+emit, inner loop plain/with break/with continue/silent, fn literal, inner loops over an Iterator / a slice / nil that re-use the outer loop's variable names) in two tag layouts (one statement per tag; adjacent code tags merged) and 4 placements. Oracle: a reference interpreter over the body gives the expected text for ordered iterables; for maps every iteration starts with a sentinel+key, the observed visiting order must be a permutation (prefix when a break fires) of the entries and the reference run in that order must reproduce the output exactly; maps are additionally rendered under every forced rotation of Go's map iteration order (runtime hook). Helper blocks: break / continue (bare, inside if, inside nested if with text) inside the block of a block helper (one that runs its block with Block(), one that uses BlockWith(help.New()), and the default block of contentOf) called (emitting or silently, nested 1-2 deep) in the loop body, every hit position: the helper receives the block's text up to the control statement, the call's own result is kept and the loop is broken / continued there. Nil and falsy elements: []interface{} / [3]interface{} / map with nil elements in every position (bound as nil, also when an enclosing loop or variable uses the same names), Iterators and slices yielding \"\", false, 0 and empty HTML (visited like any other element). Reruns: loops whose iterable is a literal / range built from an outer loop variable or a parameter, run several times in one execution (nested 2-3 deep, in a function called repeatedly, over a slice modified between runs): every run visits its current iterable; loops over 1000 .. 70000 elements (until, range, slice) visit every element; an iterator held in a variable and resumed by a later or nested loop after a break continues with the element after the last one visited. Control-free bodies are also checked by unrolling (body rendered per element with let-bound loop variables). Non-trivial: length>=2 and body contains a control statement or inner loop.",
		Bound: func(th bool) string {
			if th {
				return "lengths 0..4, body sequences <=4"
			}
			return "lengths 0..3 for []int, map[string]int, hash literal, range, custom Iterator and all-zero arrays, lengths 0 and 2 for the other kinds; body sequences <=3"
		},
	})
}

func c08Run(t *engine.T, shard string) {
	if shard == "special" {
		c08Special(t)
		return
	}
	var ii, n int
	fmt.Sscanf(shard, "it:%d:%d", &ii, &n)
	it := c08Iters[ii]
	if it.name == "groupBy" && n == 0 {
		return // groupBy(0, …) is an error (covered in C19)
	}
	elems := it.elems(n)
	target := ""
	if len(elems) >= 2 {
		target = elems[1].v
	} else if len(elems) == 1 {
		target = elems[0].v
	}
	maxLen := 3
	if t.Thorough {
		maxLen = 4
	}
	var rec func(body []int)
	rec = func(body []int) {
		c08Body(t, it, n, elems, target, body)
		if len(body) == maxLen {
			return
		}
		for ix := range c08Items {
			rec(append(body[:len(body):len(body)], ix))
		}
	}
	rec(nil)
}

func c08Body(t *engine.T, it c08Iter, n int, elems []c08KV, target string, body []int) {
	var bsrc strings.Builder
	ctl := false
	names := []string{}
	for _, ix := range body {
		bsrc.WriteString(c08Items[ix].src)
		names = append(names, c08Items[ix].name)
		k := c08Items[ix].kind
		if k != "emit-lit" && k != "emit-v" && k != "emit-k" {
			ctl = true
		}
	}
	sentinel := !it.ordered
	head := `<%= for (k, v) in ` + it.src(n) + ` { %>`
	if sentinel {
		head += `|<%= k %>:`
	}
	canonical := head + bsrc.String() + `<% } %>`
	merged := strings.ReplaceAll(canonical, ` %><% `, ` `)
	layouts := []string{canonical}
	if merged != canonical {
		layouts = append(layouts, merged)
	}
	nontrivial := len(elems) >= 2 && ctl
	for li, loop := range layouts {
		for _, pl := range c08Places {
			if li == 1 && pl.name != "top" && pl.name != "in-fn" {
				continue
			}
			src := "<" + pl.pre + loop + pl.post + ">"
			desc := fmt.Sprintf("loop %s n=%d body=[%s] layout=%d place=%s %s", it.name, n, strings.Join(names, " "), li, pl.name, q(src))
			t.Case(desc, nontrivial, func() (string, *engine.Fail) {
				return c08Exec(src, pl.opre, pl.opost, it, elems, target, body, sentinel, nil)
			})
		}
	}
	// forced map orders (environment answers)
	if !it.ordered && len(elems) >= 2 {
		src := "<" + canonical + ">"
		for seed := uint64(1); seed < 8; seed++ {
			sd := seed
			t.Case(fmt.Sprintf("loop %s n=%d body=[%s] map-order-seed=%d %s", it.name, n, strings.Join(names, " "), sd, q(src)), nontrivial, func() (string, *engine.Fail) {
				return c08Exec(src, "", "", it, elems, target, body, sentinel, []uint64{sd, sd, sd, sd, sd, sd, sd, sd, sd, sd, sd, sd})
			})
		}
	}
	// unrolling for control-free bodies over int/string slices
	if !ctl && it.ordered && len(body) > 0 && (it.name == "[]int" || it.name == "[]string") {
		src := `<%= for (k, v) in ` + it.src(n) + ` { %>` + bsrc.String() + `<% } %>`
		var un strings.Builder
		for _, e := range elems {
			val := e.v
			if it.name == "[]string" {
				val = `"` + e.v + `"`
			}
			un.WriteString(`<% let k = ` + e.k + ` %><% let v = ` + val + ` %>` + bsrc.String())
		}
		unrolled := un.String()
		t.Case("unroll "+q(src), len(elems) >= 2, func() (string, *engine.Fail) {
			a, err := Render(src, c08Context())
			b, err2 := Render(unrolled, c08Context())
			if err != nil || err2 != nil || a != b {
				return "", engine.Failf("mismatch", "loop renders %q/%v, unrolled body %q renders %q/%v", a, err, unrolled, b, err2)
			}
			return "unrolled-equal", nil
		})
	}
}

func c08Exec(src, opre, opost string, it c08Iter, elems []c08KV, target string, body []int, sentinel bool, script []uint64) (string, *engine.Fail) {
	ctx := c08Context()
	ctx.Set("hit", func(v interface{}) bool {
		if sl, ok := v.([]string); ok {
			return strings.Join(sl, "") == target // a groupBy group prints as the concatenation of its members
		}
		return fmt.Sprint(v) == target
	})
	if script != nil {
		mapctl.Begin(script)
	}
	out, err := Render(src, ctx)
	if script != nil {
		mapctl.End()
	}
	if err != nil {
		return "", engine.Failf("mismatch", "unexpected error %v", err)
	}
	if !strings.HasPrefix(out, "<"+opre) || !strings.HasSuffix(out, opost+">") {
		return "", engine.Failf("mismatch", "output %q lacks the frame <%s … %s>", out, opre, opost)
	}
	got := out[1+len(opre) : len(out)-1-len(opost)]
	if it.ordered {
		want := c08Ref(elems, body, false, target)
		if got != want {
			return "", engine.Failf("mismatch", "expected %q, got %q", want, got)
		}
		return "ordered-match", nil
	}
	// maps: recover the visiting order from the sentinels
	byKey := map[string]c08KV{}
	for _, e := range elems {
		byKey[e.k] = e
	}
	var order []c08KV
	seen := map[string]bool{}
	for _, chunk := range strings.Split(got, "|")[1:] {
		k, _, ok := strings.Cut(chunk, ":")
		e, known := byKey[k]
		if !ok || !known || seen[k] {
			return "", engine.Failf("mismatch", "iteration chunk %q in %q is not one entry visited once", chunk, got)
		}
		seen[k] = true
		order = append(order, e)
	}
	if got != "" && !strings.HasPrefix(got, "|") {
		return "", engine.Failf("mismatch", "output %q does not start with an iteration sentinel", got)
	}
	rest := []c08KV{}
	for _, e := range elems {
		if !seen[e.k] {
			rest = append(rest, e)
		}
	}
	sort.Slice(rest, func(i, j int) bool { return rest[i].k < rest[j].k })
	full := append(append([]c08KV{}, order...), rest...)
	want := c08Ref(full, body, true, target)
	if got != want {
		return "", engine.Failf("mismatch", "visiting order %v: expected %q, got %q", order, want, got)
	}
	return fmt.Sprintf("map-order-%d", orderIndex(order, elems)), nil
}

// orderIndex: which rotation/permutation of the insertion order was observed (class label only).
func orderIndex(order, elems []c08KV) int {
	if len(order) == 0 {
		return -1
	}
	for i, e := range elems {
		if e.k == order[0].k {
			return i
		}
	}
	return -2
}

func c08Special(t *engine.T) {
	mk := func() *plush.Context {
		c := c08Context()
		c.Set("nilv", nil)
		var ns []int
		var nm map[string]int
		var np *[]int
		c.Set("nsl", ns)
		c.Set("nmap", nm)
		c.Set("nptr", np)
		var npa *[2]int
		var npm *map[string]int
		var npp **[]int
		var nit *countIter
		c.Set("nptra", npa)
		c.Set("nptrm", npm)
		c.Set("nptrp", npp)
		c.Set("nitr", nit)
		c.Set("nstruct", (*Person)(nil)) // nil pointers to something that is not a collection are not iterable
		c.Set("nintp", (*int)(nil))
		c.Set("i5", 5)
		c.Set("str", "abc")
		c.Set("strct", Person{Name: "N"})
		c.Set("fnc", func() int { return 1 })
		c.Set("flt", 1.5)
		c.Set("bl", true)
		c.Set("blf", false)
		c.Set("estr", "")
		c.Set("ehtml", template.HTML(""))
		c.Set("i0", 0)
		return c
	}
	for _, e := range []string{"nil", "nsl", "nmap", "nptr", "nptra", "nptrm", "nitr", "nope"} {
		for _, body := range []string{`x`, `<%= v %>`, `<% break %>`} {
			src := `A<%= for (k, v) in ` + e + ` { %>` + body + `<% } %>B`
			e := e
			t.Case("nil-iterable "+q(src), true, func() (string, *engine.Fail) {
				out, err := Render(src, mk())
				if e == "nope" {
					if err == nil {
						return "", engine.Failf("mismatch", "unknown identifier as iterable rendered %q", out)
					}
					return "error", nil
				}
				if err != nil || out != "AB" {
					return "", engine.Failf("mismatch", "nil iterable must render nothing: got %q / %v", out, err)
				}
				return "nothing", nil
			})
		}
	}
	for _, e := range []string{"nptrp", "nstruct", "nintp", "i5", "str", "strct", "fnc", "flt", "bl", "5", `"abc"`, "true", "1.5", "false", `""`, "blf", "estr", "ehtml", "i0", "0"} {
		src := `A<%= for (k, v) in ` + e + ` { %>x<% } %>B`
		t.Case("non-iterable "+q(src), true, func() (string, *engine.Fail) {
			out, err := Render(src, mk())
			if err == nil {
				return "", engine.Failf("mismatch", "non-iterable value must be an error, rendered %q", out)
			}
			if out != "" {
				return "", engine.Failf("mismatch", "error with output %q", out)
			}
			return "error", nil
		})
	}
	// deep nesting of break/continue
	for depth := 1; depth <= 4; depth++ {
		open := strings.Repeat(`<%= for (a) in si2 { %>`, depth)
		cl := strings.Repeat(`<% } %>`, depth)
		for _, ctlw := range []string{"break", "continue"} {
			inner := `<% if (true) { if (true) { ` + ctlw + ` } } %>y`
			src := open + `x` + inner + cl + `|` + `<%= for (b) in si2 { %>z<% ` + ctlw + ` %>w<% } %>`
			// expected: each level runs twice unless break; compute by reference
			var want string
			var rec func(d int) string
			rec = func(d int) string {
				if d == 0 {
					return "x"
				}
				one := rec(d - 1)
				if d == 1 {
					one = "x" // innermost body: x then control (y never printed)
					if ctlw == "break" {
						return one
					}
					return one + one
				}
				return one + one
			}
			want = rec(depth) + "|"
			if ctlw == "break" {
				want += "z"
			} else {
				want += "zz"
			}
			t.Case(fmt.Sprintf("nested depth=%d %s %s", depth, ctlw, q(src)), true, func() (string, *engine.Fail) {
				out, err := Render(src, mk())
				if err != nil || out != want {
					return "", engine.Failf("mismatch", "expected %q, got %q / %v", want, out, err)
				}
				return "nested-match", nil
			})
		}
	}
	c08HelperBlocks(t, mk)
	c08NilAndFalsyElements(t, mk)
	// a loop node that runs more than once in one execution visits its CURRENT iterable each time
	reruns := []struct{ name, src, want string }{
		{"array literal built from the outer loop variable", `<%= for (x) in si3 { %><%= for (y) in [x, x + 1] { %><%= y %>,<% } %>;<% } %>`, "10,11,;20,21,;30,31,;"},
		{"hash literal built from the outer loop variable", `<%= for (x) in si2 { %><%= for (k, y) in {"k": x} { %><%= k %>=<%= y %>,<% } %>;<% } %>`, "k=10,;k=20,;"},
		{"range built from the outer loop variable", `<%= for (x) in [1, 2, 3] { %><%= for (y) in range(x, x + 1) { %><%= y %>,<% } %>;<% } %>`, "1,2,;2,3,;3,4,;"},
		{"literal inside a function called twice", `<% let f = fn(a) { %><%= for (y) in [a, a + 1] { %><%= y %>,<% } %><% } %><%= f(1) %>|<%= f(5) %>|<%= f(1) %>`, "1,2,|5,6,|1,2,"},
		{"outer variable reassigned between two runs of one loop", `<% let f = fn(lst) { %><%= for (y) in lst { %><%= y %>,<% } %><% } %><%= f([1]) %>|<%= f([2, 3]) %>|<%= f([]) %>|<%= f(["a"]) %>`, "1,|2,3,||a,"},
		{"slice variable whose elements change between runs", `<% let a = [1, 2] %><%= for (r) in [0, 1] { %><%= for (y) in a { %><%= y %>,<% } %><% a[0] = 9 %>;<% } %>`, "1,2,;9,2,;"},
		{"literal of three nested levels", `<%= for (x) in [1, 2] { %><%= for (y) in [x * 10, x * 10 + 1] { %><%= for (z) in [y, y + 100] { %><%= z %>,<% } %><% } %>;<% } %>`, "10,110,11,111,;20,120,21,121,;"},
	}
	// size does not matter: every element of a long Iterator / slice is visited
	for _, n := range []int{1000, 65535, 65536, 65537, 70000} {
		n := n
		t.Case(fmt.Sprintf("rerun long loops n=%d", n), true, func() (string, *engine.Fail) {
			vtick.Reset(400_000_000)
			ctx := mk()
			cnt, sum := 0, 0
			ctx.Set("cnt", func(v int) string { cnt++; sum += v; return "" })
			big := make([]int, n)
			for i := range big {
				big[i] = 1
			}
			ctx.Set("big", big)
			ctx.Set("n", n)
			out, err := Render(`<%= for (k, v) in until(n) { %><% cnt(v) %><% } %>|<%= for (v) in range(1, n) { %><% cnt(0) %><% } %>|<%= for (k, v) in big { %><% cnt(0) %><% } %>`, ctx)
			if err != nil || out != "||" {
				return "", engine.Failf("mismatch", "expected \"||\", got %q / %v", out, err)
			}
			if cnt != 3*n || sum != n*(n-1)/2 {
				return "", engine.Failf("mismatch", "three loops over %d elements visited %d elements in all (sum of the first %d, expected %d)", n, cnt, sum, n*(n-1)/2)
			}
			return "rerun", nil
		})
	}
	// an iterator that outlives its loop: a loop that breaks has taken exactly the elements it visited
	t.Case("rerun a broken-off loop leaves the rest of its iterator", true, func() (string, *engine.Fail) {
		ctx := mk()
		it := &countIter{max: 6}
		ctx.Set("cit", it)
		src := `<% let r = range(1, 6) %><%= for (v) in r { %><%= v %><% if (v == 2) { break } %><% } %>|<%= for (k, v) in r { %><%= k %>:<%= v %> <% } %>|` +
			`<%= for (v) in cit { %><%= v %><% if (v == 2) { break } %><% } %>|<%= for (v) in cit { %><%= v %><% if (v == 4) { continue } %>.<% } %>|` +
			`<% let s = until(6) %><%= for (a) in s { %><%= for (b) in s { %><%= a %>-<%= b %>;<% break %><% } %><% } %>`
		want := "12|0:3 1:4 2:5 3:6 |12|3.45.6.|0-1;2-3;4-5;"
		out, err := Render(src, ctx)
		if err != nil || out != want {
			return "", engine.Failf("mismatch", "expected %q, got %q / %v", want, out, err)
		}
		if it.n != 6 {
			return "", engine.Failf("mismatch", "Next advanced the Go iterator to %d, expected 6", it.n)
		}
		return "rerun", nil
	})
	for _, c := range reruns {
		c := c
		t.Case("rerun "+c.name+" "+q(c.src), true, func() (string, *engine.Fail) {
			out, err := Render(c.src, mk())
			if err != nil || out != c.want {
				return "", engine.Failf("mismatch", "expected %q, got %q / %v", c.want, out, err)
			}
			return "rerun", nil
		})
	}
}

type c08ListIter struct {
	items []interface{}
	pos   int
}

func (l *c08ListIter) Next() interface{} {
	if l.pos >= len(l.items) {
		return nil
	}
	l.pos++
	return l.items[l.pos-1]
}

// nil elements of slices / arrays / maps are bound as nil (not as the previous element's value, and not as
// a same-named variable of an enclosing scope); an Iterator ends only when Next returns nil, not at a falsy value.
func c08NilAndFalsyElements(t *engine.T, mk func() *plush.Context) {
	show := `<%= k %>:<%= if (v == nil) { %>nil<% } else { %><%= v %><% } %>,`
	type tc struct {
		name, src, want string
		set             func(c *plush.Context)
	}
	var cases []tc
	seqs := [][]interface{}{{"a", nil, "c"}, {nil, "b"}, {"a", nil}, {nil, nil, "c"}, {"a", "b", nil, nil, "e"}, {nil}}
	for si, seq := range seqs {
		seq := seq
		var want strings.Builder
		for i, e := range seq {
			if e == nil {
				fmt.Fprintf(&want, "%d:nil,", i)
			} else {
				fmt.Fprintf(&want, "%d:%v,", i, e)
			}
		}
		cases = append(cases, tc{fmt.Sprintf("[]interface{} #%d", si), `<%= for (k, v) in sq { %>` + show + `<% } %>`, want.String(), func(c *plush.Context) { c.Set("sq", seq) }})
		// the same under an outer loop / outer variable that uses the same names
		cases = append(cases, tc{fmt.Sprintf("[]interface{} #%d shadowing an outer loop's names", si), `<%= for (k, v) in one { %><%= for (k, v) in sq { %>` + show + `<% } %><% } %>`, want.String(), func(c *plush.Context) { c.Set("sq", seq); c.Set("one", []string{"OUTER"}) }})
		cases = append(cases, tc{fmt.Sprintf("[]interface{} #%d shadowing an outer variable", si), `<% let v = "OUTER" %><%= for (k, v) in sq { %>` + show + `<% } %>|<%= v %>`, want.String() + "|OUTER", func(c *plush.Context) { c.Set("sq", seq) }})
		if len(seq) == 3 {
			arr := [3]interface{}{seq[0], seq[1], seq[2]}
			cases = append(cases, tc{fmt.Sprintf("[3]interface{} #%d", si), `<%= for (k, v) in sq { %>` + show + `<% } %>`, want.String(), func(c *plush.Context) { c.Set("sq", arr) }})
		}
	}
	cases = append(cases, tc{"map with one nil value under an outer v", `<% let v = "OUTER" %><%= for (k, v) in mp { %>` + show + `<% } %>`, "x:nil,", func(c *plush.Context) { c.Set("mp", map[string]interface{}{"x": nil}) }})
	falsy := [][]interface{}{{"a", "", "b"}, {"", "a"}, {false, true, false}, {0, 1, 0}, {template.HTML(""), template.HTML("<i>")}, {"a", false, "", 0, "z"}}
	for fi, seq := range falsy {
		seq := seq
		var want strings.Builder
		for i, e := range seq {
			fmt.Fprintf(&want, "%d:%v,", i, e)
		}
		cases = append(cases, tc{fmt.Sprintf("Iterator yielding falsy values #%d", fi), `<%= for (k, v) in itf { %><%= k %>:<%= v %>,<% } %>`, want.String(), func(c *plush.Context) { c.Set("itf", &c08ListIter{items: seq}) }})
		cases = append(cases, tc{fmt.Sprintf("slice with falsy values #%d", fi), `<%= for (k, v) in itf { %><%= k %>:<%= v %>,<% } %>`, want.String(), func(c *plush.Context) { c.Set("itf", seq) }})
	}
	// keys and elements of named types reach the body as the Go values they are: their methods, their printed form
	// (Stringer / HTMLer) and lookups by them in the same map work as outside the loop
	typedBody := `<%= k.Up() %>=<%= v %>,`
	cases = append(cases,
		tc{"map keyed by a named string type with a method", `<%= for (k, v) in tm { %>` + typedBody + `<% } %>`, "EN=1,", func(c *plush.Context) { c.Set("tm", map[c08Lang]int{"en": 1}) }},
		tc{"pointer to a map keyed by a named string type", `<%= for (k, v) in tm { %>` + typedBody + `<% } %>`, "EN=1,", func(c *plush.Context) { c.Set("tm", &map[c08Lang]int{"en": 1}) }},
		tc{"map keyed by a named string type that is a Stringer", `<%= for (k, v) in tm { %><%= k %>=<%= v %>,<% } %>`, "lang(en)=1,", func(c *plush.Context) { c.Set("tm", map[c08LangS]int{"en": 1}) }},
		tc{"map keyed by a named string type, lookup by the key", `<%= for (k, v) in tm { %><%= tm[k] %>,<% } %>`, "1,", func(c *plush.Context) { c.Set("tm", map[c08Lang]int{"en": 1}) }},
		tc{"map keyed by a named string type, key handed to a typed helper", `<%= for (k, v) in tm { %><%= wantLang(k) %>,<% } %>`, "lang:en,", func(c *plush.Context) {
			c.Set("tm", map[c08Lang]int{"en": 1})
			c.Set("wantLang", func(l c08Lang) string { return "lang:" + string(l) })
		}},
		tc{"map keyed by a named int type with a method", `<%= for (k, v) in tm { %><%= k.Double() %>=<%= v %>,<% } %>`, "14=x,", func(c *plush.Context) { c.Set("tm", map[c08ID]string{7: "x"}) }},
		tc{"map keyed by a struct", `<%= for (k, v) in tm { %><%= k.Name %>=<%= v %>,<% } %>`, "n=1,", func(c *plush.Context) { c.Set("tm", map[c08Key]int{{Name: "n"}: 1}) }},
		tc{"map with values of a named string type", `<%= for (k, v) in tm { %><%= k %>=<%= v.Up() %>,<% } %>`, "a=EN,", func(c *plush.Context) { c.Set("tm", map[string]c08Lang{"a": "en"}) }},
		tc{"slice of a named string type", `<%= for (i, v) in tm { %><%= i %>=<%= v.Up() %>,<% } %>`, "0=EN,1=FR,", func(c *plush.Context) { c.Set("tm", []c08Lang{"en", "fr"}) }},
		tc{"array of a named int type", `<%= for (i, v) in tm { %><%= i %>=<%= v.Double() %>,<% } %>`, "0=2,1=4,", func(c *plush.Context) { c.Set("tm", [2]c08ID{1, 2}) }},
		tc{"slice of pointers, pointer-receiver method", `<%= for (i, v) in tm { %><%= v.Hello() %>,<% } %>`, "", func(c *plush.Context) { c.Set("tm", []*Person{}) }},
		tc{"Iterator yielding a named string type", `<%= for (i, v) in tm { %><%= i %>=<%= v.Up() %>,<% } %>`, "0=EN,", func(c *plush.Context) { c.Set("tm", &c08ListIter{items: []interface{}{c08Lang("en")}}) }},
	)
	// an exhausted iterator stays exhausted whatever iterators are made after it; a loop with an empty body still
	// walks its iterable (an Iterator is drained, Next is called once per element and once more)
	none := func(c *plush.Context) {}
	cases = append(cases,
		tc{"exhausted range held in a variable, new ranges made afterwards", `<% let it = range(1, 2) %><%= for (v) in it { %><%= v %><% } %>|<%= for (a) in range(7, 9) { %>[<%= a %><%= for (v) in it { %><%= v %><% } %>]<% } %>`, "12|[7][8][9]", none},
		tc{"exhausted range looped twice, then two nested fresh ranges", `<% let it = range(1, 2) %><%= for (v) in it { %><% } %><%= for (v) in it { %>x<% } %><%= for (v) in it { %>y<% } %><%= for (a) in range(1, 2) { %><%= for (b) in range(5, 6) { %>(<%= a %>,<%= b %>)<% } %><% } %>`, "(1,5)(1,6)(2,5)(2,6)", none},
		tc{"exhausted until / between held in variables", `<% let u = until(2) %><% let w = between(0, 3) %><%= for (v) in u { %><%= v %><% } %><%= for (v) in w { %><%= v %><% } %>|<%= for (a) in until(2) { %><%= for (b) in between(0, 3) { %><%= a %><%= b %>,<% } %><%= for (v) in u { %>U<% } %><%= for (v) in w { %>W<% } %><% } %>`, "0112|01,02,11,12,", none},
		tc{"empty body drains a range", `<% let it = range(1, 3) %><%= for (v) in it { } %><%= for (v) in it { %>[<%= v %>]<% } %>|`, "|", none},
		tc{"empty body over several tags drains a range", `<% let it = range(1, 3) %><%= for (v) in it { %><% } %>[<%= for (v) in it { %><%= v %><% } %>]`, "[]", none},
		tc{"silent empty body drains a range", `<% let it = range(1, 3) %><% for (v) in it { } %>[<%= for (v) in it { %><%= v %><% } %>]`, "[]", none},
		tc{"empty body calls Next of a custom Iterator", `<%= for (v) in cit { } %><%= cit.Calls() %>`, "4", func(c *plush.Context) { c.Set("cit", &c08CountIter{n: 3}) }},
		tc{"comment-only body calls Next of a custom Iterator", `<%= for (v) in cit { # nothing
 } %><%= cit.Calls() %>|<%= for (v) in cit2 { %><%# c %><% } %><%= cit2.Calls() %>`, "4|3", func(c *plush.Context) {
			c.Set("cit", &c08CountIter{n: 3})
			c.Set("cit2", &c08CountIter{n: 2})
		}},
	)
	// a non-iterable is an error whatever the loop body is - empty, a comment, text
	for _, it := range []string{"42", `"str"`, "true", "pers", "fnv"} {
		for _, body := range []string{`{ }`, `{ %><% }`, `{ # c
 }`, `{ %><%# c %><% }`, `{ %>t<% }`} {
			for _, form := range []string{`<%= for (x) in %s %s %%>`, `<%% for (x) in %s %s %%>`, `<%%= for (o) in [1] { %%><%%= for (x) in %s %s %%><%% } %%>`} {
				src := fmt.Sprintf(form, it, body)
				t.Case("elements non-iterable with body "+q(src), true, func() (string, *engine.Fail) {
					ctx := mk()
					ctx.Set("pers", Person{Name: "n"})
					ctx.Set("fnv", func() int { return 1 })
					out, err := Render(src, ctx)
					if err == nil {
						return "", engine.Failf("mismatch", "a value that cannot be iterated over was accepted: rendered %q", out)
					}
					return "rejected", nil
				})
			}
		}
	}
	for _, c := range cases {
		c := c
		t.Case("elements "+c.name+" "+q(c.src), true, func() (string, *engine.Fail) {
			ctx := mk()
			c.set(ctx)
			out, err := Render(c.src, ctx)
			if err != nil || out != c.want {
				return "", engine.Failf("mismatch", "expected %q, got %q / %v", c.want, out, err)
			}
			return "elements", nil
		})
	}
}

// break / continue inside the block of a block helper that sits in a loop body ("however
// nested"): the helper receives what its block produced up to the control statement, the
// statement that called the helper keeps its own result, and the control statement then
// acts on the loop around the call exactly as if the block's text were written inline.
func c08HelperBlocks(t *engine.T, mk func() *plush.Context) {
	iters := []struct {
		src   string
		elems []string
	}{{"si0", nil}, {"si1", []string{"10"}}, {"si2", []string{"10", "20"}}, {"si3", []string{"10", "20", "30"}}, {"it3", []string{"1", "2", "3"}}}
	for _, it := range iters {
		for hitAt := -1; hitAt < len(it.elems); hitAt++ {
			for _, ctlw := range []string{"break", "continue"} {
				for depth := 1; depth <= 2; depth++ {
					for _, silent := range []bool{false, true} {
						for _, hp := range []struct{ call, open, close string }{{"blk()", "{", "}"}, {"bwith()", "{", "}"}, {`contentOf("undefined-name")`, "", ""}} {
							if hp.call != "blk()" && (depth == 2 || it.src == "it3") {
								continue // the derived-context helpers: depth 1 over the slices
							}
							for _, cond := range []string{"if", "nested-if", "bare"} {
								if cond == "bare" && hitAt != 0 {
									continue // an unconditional control statement fires at the first element
								}
								target := "none"
								if hitAt >= 0 {
									target = it.elems[hitAt]
								}
								var ctl string
								switch cond {
								case "if":
									ctl = `<% if (v == ` + target + `) { ` + ctlw + ` } %>`
								case "nested-if":
									ctl = `<% if (true) { if (v == ` + target + `) { %>!<% ` + ctlw + ` } } %>`
								case "bare":
									ctl = `<% ` + ctlw + ` %>`
								}
								if target == "none" {
									ctl = strings.Replace(ctl, "v == none", "v == 999", 1)
								}
								tag := "<%="
								if silent {
									tag = "<%"
								}
								block := `t` + ctl + `u`
								call := tag + ` ` + hp.call + ` { %>` + block + `<% } %>`
								if depth == 2 {
									call = tag + ` blk() { %>a` + tag + ` blk() { %>` + block + `<% } %>d<% } %>`
								}
								src := `<<%= for (v) in ` + it.src + ` { %>(<%= v %>` + call + `)<% } %>>`
								// reference
								var want strings.Builder
								want.WriteString("<")
								for i, e := range it.elems {
									fires := i == hitAt || (cond == "bare")
									want.WriteString("(" + e)
									if !fires {
										if !silent {
											if depth == 2 {
												want.WriteString("{a{tu}d}")
											} else {
												want.WriteString(hp.open + "tu" + hp.close)
											}
										}
										want.WriteString(")")
										continue
									}
									if !silent {
										inner := "t"
										if cond == "nested-if" {
											inner = "t" // text inside a silent if is not output ... except what the control statement carries
										}
										if depth == 2 {
											want.WriteString("{a{" + inner + "}}")
										} else {
											want.WriteString(hp.open + inner + hp.close)
										}
									}
									if ctlw == "break" {
										break
									}
								}
								want.WriteString(">")
								expect := want.String()
								nestedIf := cond == "nested-if"
								t.Case(fmt.Sprintf("helper-block %s %s depth=%d silent=%v %s", hp.call, ctlw, depth, silent, q(src)), true, func() (string, *engine.Fail) {
									out, err := Render(src, mk())
									if err != nil {
										return "", engine.Failf("mismatch", "expected %q, got error %v", expect, err)
									}
									if nestedIf {
										// whether the text of the silent if that precedes the control statement is kept is left open
										out = strings.Replace(out, "t!", "t", -1)
									}
									if out != expect {
										return "", engine.Failf("mismatch", "expected %q, got %q", expect, out)
									}
									return "helper-block-" + ctlw, nil
								})
							}
						}
					}
				}
			}
		}
	}
}

type c08Lang string

func (l c08Lang) Up() string { return strings.ToUpper(string(l)) }

type c08LangS string

func (l c08LangS) String() string { return "lang(" + string(l) + ")" }

type c08ID int

func (i c08ID) Double() int { return int(i) * 2 }

type c08Key struct{ Name string }

// c08CountIter yields 1..n and counts the calls of Next.
type c08CountIter struct{ n, i, calls int }

func (c *c08CountIter) Next() interface{} {
	c.calls++
	if c.i >= c.n {
		return nil
	}
	c.i++
	return c.i
}

func (c *c08CountIter) Calls() int { return c.calls }
