package props

import (
	"context"
	"fmt"
	"html/template"
	"strings"

	"verifmc/engine"

	plush "github.com/gobuffalo/plush/v5"
)

// C16 — user-defined functions bind parameters to argument values and return their value.

var c16Params = []string{"a", "b", "c"}

// outer variables named like the parameters, with different values
var c16Outer = map[string]string{"a": "B", "b": "A", "c": "C"}

type c16Val struct {
	kind string // lit | param | paramx | empty
	i    int
}

func (v c16Val) src() string {
	switch v.kind {
	case "lit":
		return `"L"`
	case "param":
		return c16Params[v.i]
	case "paramx":
		return c16Params[v.i] + ` + "x"`
	}
	return `""`
}

func (v c16Val) eval(args []string) string {
	switch v.kind {
	case "lit":
		return "L"
	case "param":
		return args[v.i]
	case "paramx":
		return args[v.i] + "x"
	}
	return ""
}

type c16Cond struct {
	param int
	lit   string
}

type c16Body struct {
	shape string // chain | nested | let
	conds []c16Cond
	vals  []c16Val // len(conds)+1
}

func (b c16Body) src(p int) string {
	ps := strings.Join(c16Params[:p], ", ")
	var sb strings.Builder
	sb.WriteString("fn(" + ps + ") {\n")
	switch b.shape {
	case "chain":
		for i, c := range b.conds {
			fmt.Fprintf(&sb, "if (%s == %q) { return %s\n mark() }\n", c16Params[c.param], c.lit, b.vals[i].src())
		}
		fmt.Fprintf(&sb, "return %s\n mark()\n return \"dead\"\n", b.vals[len(b.conds)].src())
	case "nested":
		fmt.Fprintf(&sb, "if (%s == %q) { if (%s == %q) { return %s }\n return %s }\n return %s\n", c16Params[b.conds[0].param], b.conds[0].lit, c16Params[b.conds[1].param], b.conds[1].lit, b.vals[0].src(), b.vals[1].src(), b.vals[2].src())
	case "let":
		fmt.Fprintf(&sb, "let t = %s\n if (%s == %q) { let t = %s\n return t }\n return t\n", b.vals[1].src(), c16Params[b.conds[0].param], b.conds[0].lit, b.vals[0].src())
	}
	sb.WriteString("}")
	return sb.String()
}

func (b c16Body) eval(args []string) string {
	switch b.shape {
	case "chain":
		for i, c := range b.conds {
			if args[c.param] == c.lit {
				return b.vals[i].eval(args)
			}
		}
		return b.vals[len(b.conds)].eval(args)
	case "nested":
		if args[b.conds[0].param] == b.conds[0].lit {
			if args[b.conds[1].param] == b.conds[1].lit {
				return b.vals[0].eval(args)
			}
			return b.vals[1].eval(args)
		}
		return b.vals[2].eval(args)
	case "let":
		if args[b.conds[0].param] == b.conds[0].lit {
			return b.vals[0].eval(args)
		}
		return b.vals[1].eval(args)
	}
	return ""
}

type c16Arg struct{ src, val string }

var c16ArgPool = []c16Arg{{`"A"`, "A"}, {`"B"`, "B"}, {"a", "B"}, {"b", "A"}}

func c16Vals(p int) []c16Val {
	v := []c16Val{{"lit", 0}, {"empty", 0}}
	for i := 0; i < p; i++ {
		v = append(v, c16Val{"param", i}, c16Val{"paramx", i})
	}
	return v
}

func c16Conds(p int) []c16Cond {
	var c []c16Cond
	for i := 0; i < p; i++ {
		c = append(c, c16Cond{i, "A"}, c16Cond{i, "B"})
	}
	return c
}

func c16Truthy(s string) bool { return s != "" }

type c16Env struct {
	marks int
	seen  []interface{}
}

func (e *c16Env) context() *plush.Context {
	c := plush.NewContext()
	for k, v := range c16Outer {
		c.Set(k, v)
	}
	c.Set("mark", func() string { e.marks++; return "" })
	c.Set("rec", func(v interface{}) interface{} { e.seen = append(e.seen, v); return v })
	c.Set("idf", func(v interface{}) interface{} { return v })
	c.Set("pers", Person{Name: "N", Kid: &Person{Name: "K"}, Tags: []string{"t0", "t1"}, Attrs: map[string]string{"k": "v"}})
	return c
}

var c16Uses = []struct {
	name string
	mk   func(call string) string
	want func(r string) string
}{
	{"emit", func(c string) string { return `<%= ` + c + ` %>` }, func(r string) string { return r }},
	{"if", func(c string) string { return `<%= if (` + c + `) { %>T<% } else { %>F<% } %>` }, func(r string) string {
		if c16Truthy(r) {
			return "T"
		}
		return "F"
	}},
	{"not", func(c string) string { return `<%= !` + c + ` %>` }, func(r string) string { return fmt.Sprint(!c16Truthy(r)) }},
	{"eq", func(c string) string { return `<%= ` + c + ` == "A" %>` }, func(r string) string { return fmt.Sprint(r == "A") }},
	{"eq-right", func(c string) string { return `<%= "Bx" == ` + c + ` %>` }, func(r string) string { return fmt.Sprint(r == "Bx") }},
	{"concat", func(c string) string { return `<%= ` + c + ` + "!" %>` }, func(r string) string { return r + "!" }},
	{"concat-right", func(c string) string { return `<%= "[" + ` + c + ` + "]" %>` }, func(r string) string { return "[" + r + "]" }},
	{"let", func(c string) string { return `<% let r = ` + c + ` %><%= r + "?" %>` }, func(r string) string { return r + "?" }},
	{"go-arg", func(c string) string { return `<%= rec(` + c + `) %>` }, func(r string) string { return r }},
	{"and", func(c string) string { return `<%= ` + c + ` && true %>` }, func(r string) string { return fmt.Sprint(c16Truthy(r)) }},
	{"array", func(c string) string { return `<%= [` + c + `, "z"][0] %>` }, func(r string) string { return r }},
	{"in-for", func(c string) string { return `<%= for (v) in [1, 2] { %><%= ` + c + ` %>;<% } %>` }, func(r string) string { return r + ";" + r + ";" }},
}

func init() {
	engine.Register(&engine.Prop{
		ID: "C16",
		Shards: func(th bool) []string {
			s := []string{"special", "loopret", "p0", "p1"}
			for i := range c16Conds(2) {
				s = append(s, fmt.Sprintf("p2:%d", i))
			}
			for i := range c16Conds(3) {
				s = append(s, fmt.Sprintf("p3:%d", i))
			}
			return s
		},
		Run:  c16Run,
		Rule: "functions of p=0..3 parameters (a, b, c) whose bodies are decision chains (if (p_i == lit) { return V } …; return V) with V in {literal, empty string, p_j, p_j + \"x\"}, a side-effecting statement after every return (must not run), nested-if and let-in-body shapes; every argument tuple over {\"A\", \"B\", outer variable a (=\"B\"), outer variable b (=\"A\"), a nested call of the same function} — the outer variables are named like the parameters, so swapped arguments distinguish binding orders; result used in 12 ways (output tag, if condition incl. falsy results, !, == on either side, + on either side, let then use, argument of a recording Go helper, &&, array element, inside a for body). Plus nil arguments over every tuple of {nil, value, outer variables} for p<=3 (a parameter bound to nil must not fall through to a same-named caller variable), one identifier bound to different functions within a render, nested calls f(f(x)), g(f(x), f(y)) re-entrancy, higher-order apply(f, x), functions stored in let / passed through a Go helper / passed as parameters, recursion (countdown, factorial, fibonacci, mutual even/odd, 60 deep), a return nested 0..9 blocks deep used as a value in 8 ways, 700 / 400 calls in a row from one scope, paths (field, method, index) continuing from a function's result, calling call results; calls with more arguments than parameters fail or evaluate every argument. Loop returns: functions whose return sits in a for loop of the body (search loop, unconditional, nested loops, loop inside if) over an array literal / context slice / Iterator / hash literal, every argument (hit at each position, no hit), 5 uses: value of the first return reached, no iteration and no statement after it. Compared with a reference evaluation of the decision chain. Non-trivial: p >= 1.",
		Bound: func(th bool) string {
			if th {
				return "p<=3 with chains of <=2 conditions"
			}
			return "p<=2 with chains of <=2 conditions; p=3 with one condition"
		},
	})
}

func c16Run(t *engine.T, shard string) {
	switch {
	case shard == "special":
		c16Special(t)
	case shard == "loopret":
		c16LoopReturn(t)
	case shard == "p0":
		for _, v := range c16Vals(0) {
			b := c16Body{"chain", nil, []c16Val{v}}
			c16Func(t, 0, b)
		}
	case shard == "p1":
		vals, conds := c16Vals(1), c16Conds(1)
		for _, v := range vals {
			c16Func(t, 1, c16Body{"chain", nil, []c16Val{v}})
		}
		for _, c1 := range conds {
			for _, v1 := range vals {
				for _, v2 := range vals {
					c16Func(t, 1, c16Body{"chain", []c16Cond{c1}, []c16Val{v1, v2}})
					c16Func(t, 1, c16Body{"let", []c16Cond{c1}, []c16Val{v1, v2}})
					for _, c2 := range conds {
						for _, v3 := range vals {
							c16Func(t, 1, c16Body{"chain", []c16Cond{c1, c2}, []c16Val{v1, v2, v3}})
							c16Func(t, 1, c16Body{"nested", []c16Cond{c1, c2}, []c16Val{v1, v2, v3}})
						}
					}
				}
			}
		}
	default:
		var p, ci int
		fmt.Sscanf(shard, "p%d:%d", &p, &ci)
		vals, conds := c16Vals(p), c16Conds(p)
		c1 := conds[ci]
		for _, v1 := range vals {
			for _, v2 := range vals {
				c16Func(t, p, c16Body{"chain", []c16Cond{c1}, []c16Val{v1, v2}})
				c16Func(t, p, c16Body{"let", []c16Cond{c1}, []c16Val{v1, v2}})
				if p == 3 && !t.Thorough {
					continue
				}
				for _, c2 := range conds {
					for _, v3 := range vals {
						c16Func(t, p, c16Body{"chain", []c16Cond{c1, c2}, []c16Val{v1, v2, v3}})
						c16Func(t, p, c16Body{"nested", []c16Cond{c1, c2}, []c16Val{v1, v2, v3}})
					}
				}
			}
		}
	}
}

func c16Func(t *engine.T, p int, b c16Body) {
	fsrc := b.src(p)
	def := `<% let f = ` + fsrc + ` %>`
	var tuples [][]c16Arg
	var rec func(cur []c16Arg)
	pool := append([]c16Arg{}, c16ArgPool...)
	if p >= 1 {
		// a nested call of the same function as argument (re-entrancy while arguments are being evaluated)
		lits := []string{"B", "A", "B"}[:p]
		pool = append(pool, c16Arg{`f("` + strings.Join(lits, `", "`) + `")`, b.eval(lits)})
	}
	rec = func(cur []c16Arg) {
		if len(cur) == p {
			tuples = append(tuples, append([]c16Arg{}, cur...))
			return
		}
		for _, a := range pool {
			rec(append(cur[:len(cur):len(cur)], a))
		}
	}
	rec(nil)
	for _, tu := range tuples {
		var as, av []string
		for _, a := range tu {
			as = append(as, a.src)
			av = append(av, a.val)
		}
		call := "f(" + strings.Join(as, ", ") + ")"
		r := b.eval(av)
		for _, u := range c16Uses {
			src := def + u.mk(call)
			want := template.HTMLEscapeString(u.want(r))
			uname := u.name
			t.Case("fn p="+fmt.Sprint(p)+" use="+uname+" "+q(src), p >= 1, func() (string, *engine.Fail) {
				e := &c16Env{}
				out, err := Render(src, e.context())
				if err != nil {
					return "", engine.Failf("mismatch", "expected %q, got error %v", want, err)
				}
				if out != want {
					return "", engine.Failf("mismatch", "expected %q, got %q", want, out)
				}
				if e.marks != 0 {
					return "", engine.Failf("after-return", "a statement after the first return reached was executed %d times", e.marks)
				}
				if uname == "go-arg" {
					if len(e.seen) != 1 || e.seen[0] != interface{}(r) {
						return "", engine.Failf("passed-on", "Go helper received %#v, expected %q", e.seen, r)
					}
				}
				if r == "" {
					return "falsy-result:" + uname, nil
				}
				return "result:" + uname, nil
			})
		}
	}
}

func c16Special(t *engine.T) {
	cases := []struct{ name, src, want string }{
		{"nested f(f(x))", `<% let f = fn(a) { return a + "x" } %><%= f(f("A")) %>|<%= f(f(f(b))) %>`, "Axx|Axxx"},
		{"re-entrant argument", `<% let sub = fn(a, b) { return a - b } %><%= sub(10, sub(5, 3)) %>|<%= sub(sub(10, 1), sub(5, 3)) %>`, "8|7"},
		{"re-entrant via other fn", `<% let g = fn(a, b) { return a + b } %><% let h = fn(a) { return g(a, "h") } %><%= g("1", h("2")) %>|<%= g(h("1"), h("2")) %>`, "12h|1h2h"},
		{"zero params compared", `<% let one = fn() { return 1 } %><%= one() == 1 %>|<%= one() + one() %>|<%= if (one()) { %>T<% } %>`, "true|2|T"},
		{"zero params falsy", `<% let no = fn() { return false } %><%= if (no()) { %>T<% } else { %>F<% } %>|<%= !no() %>|<%= no() == false %>`, "F|true|true"},
		{"zero params scope", `<% let t = "outer" %><% let z = fn() { let t = "inner"
 return t } %><%= z() %>|<%= t %>`, "inner|outer"},
		{"higher-order apply", `<% let f = fn(a) { return a + "x" } %><% let apply = fn(g, v) { return g(v) } %><%= apply(f, "A") %>|<%= apply(f, apply(f, b)) %>`, "Ax|Axx"},
		{"stored in let", `<% let f = fn(a) { return a + "x" } %><% let g = f %><%= g("A") %>`, "Ax"},
		{"local recursive function inside a function", `<% let outer = fn(n) { let walk = fn(k) { if (k == 0) { return "done" }
 return walk(k - 1) }
 return walk(n) } %><%= outer(2) %>|<%= outer(0) %>`, "done|done"},
		{"local function inside a for body", `<%= for (v) in [1, 2] { let sq = fn(k) { if (k == 0) { return 0 }
 return k + sq(k - 1) } %><%= sq(v) %>,<% } %>`, "1,3,"},
		{"local function passed to a top-level function", `<% let apply = fn(g, v) { return g(v) } %><% let outer = fn() { let loc = fn(k) { if (k == 0) { return "z" }
 return loc(k - 1) }
 return apply(loc, 2) } %><%= outer() %>`, "z"},
		{"local function sees the enclosing function's parameter", `<% let outer = fn(p) { let inner = fn() { return p + "!" }
 return inner() } %><%= outer("x") %>|<%= outer("y") %>`, "x!|y!"},
		{"recursion reads its parameter after the self call", `<% let sum = fn(n) { if (n == 0) { return 0 }
 return sum(n - 1) + n } %><%= sum(4) %>|<% let cat = fn(s, n) { if (n == 0) { return "" }
 let rest = cat(s, n - 1)
 return rest + s + n } %><%= cat("a", 3) %>`, "10|a1a2a3"},
		{"text before return, emitted at top level", `<% let f = fn(a) { %>T<%= a %><% return "r" } %>[<%= f("1") %>]`, "[T1r]"},
		{"text before return, emitted inside blocks", `<% let f = fn(a) { %>T<%= a %><% return "r" } %><%= if (true) { %>A<%= f("1") %>B<% } %>|<%= for (v) in [1, 2] { %>(<%= f("2") %>)<% } %>|<% let g = fn() { %>g<%= f("3") %>h<% } %><%= g() %>`, "AT1rB|(T2r)(T2r)|gT3rh"},
		{"text before return, called silently", `<% let f = fn() { %>T<% return "r" } %><%= if (true) { %>A<% f() %>B<% let z = f() %>C<% } %>D`, "ABCD"},
		{"return inside nested blocks with text", `<% let f = fn(a) { %>x<% if (a) { %>y<% return "1" } %>z<% return "2" } %><%= f(true) %>|<%= f(false) %>`, "xy1|xz2"},
		{"path continues from a function's result", `<% let id = fn(v) { return v } %><%= id(pers).Name %>|<%= id(pers).Kid.Name %>|<%= id(pers).Tags[1] %>|<%= id(pers).Hello() %>|<%= id(id(pers)).Attrs["k"] %>`, "N|K|t1|hello N|v"},
		{"path on the result of a function reached through a parameter", `<% let id = fn(v) { return v } %><% let ap = fn(g, v) { return g(v).Name } %><%= ap(id, pers) %>|<%= ap(id, pers.Kid) %>`, "N|K"},
		{"calling a call result whose text contains a dot", `<% let mk = fn(a) { return fn(b) { return a + b } } %><% let add = fn(a) { return fn(b) { return b + 1 } } %><%= add(1.5)(2) %>|<%= add("a.b")(2) %>|<%= fn(x) { return x + 1.5 }(2.0) %>|<%= add(pers.Name)(4) %>`, "3|3|3.5|5"},
		{"calling a function stored under a key / index whose text contains a dot", `<% let m = {"a.b": fn(x) { return x + 1 }, "c": fn(x) { return x + 2 }} %><% let fs = [fn(x) { return x + 10 }, fn(x) { return x + 20 }] %><% let cfg = {"Idx": 1} %><%= m["a.b"](2) %>|<%= m["c"](2) %>|<%= fs[cfg["Idx"]](1) %>|<%= fs[0](10) %>|<%= [fn(x) { return x + 0.5 }][0](1.0) %>`, "3|4|21|20|1.5"},
		{"a fresh scope for every call: another function's let is not visible", `<% let t = "outer" %><% let f = fn() { let t = "two"
 return t } %><% let g = fn() { return t } %><% let h = fn(u) { let w = u
 return t + w } %><%= g() %>|<%= f() %>|<%= g() %>|<%= h("1") %>|<%= g() %>|<%= f() + g() %>|<%= t %>`, "outer|two|outer|outer1|outer|twoouter|outer"},
		{"a list is returned as that list, whatever its length", `<% let id = fn(x) { return x } %><% let mk1 = fn(v) { return [v] } %><%= len(id(["seven"])) %>|<%= id(["seven"])[0] %>|<%= for (e) in id([[1, 2]]) { %><%= len(e) %><% } %>|<%= len(id([])) %>|<%= len(id([1, 2])) %>|<%= len(mk1(5)) %>|<%= mk1(5)[0] + 1 %>|<%= len(mk1([1, 2, 3])) %>|<%= len(id(id([[9]]))[0]) %>|<%= rec(id(["z"]))[0] %>`, "1|seven|2|0|2|1|6|1|1|z"},
		{"argument tuples that print alike are different calls", `<% let f = fn(a, b) { return "[" + a + "|" + b + "]" } %><% let g = fn(a) { return a + 1 } %><% let e = fn(a, b) { if (a == "") { return "first-empty" }
 return "second-empty" } %><%= f("x", "") %><%= f("", "x") %>|<%= f("ab", "c") %><%= f("a", "bc") %>|<%= g(1) %>,<%= g("1") %>,<%= g(1) %>|<%= e("x", "") %>,<%= e("", "x") %>|<%= f("1", 1) %><%= f(1, "1") %>|<%= g(2) %>,<%= g("2") %>`, "[x|][|x]|[ab|c][a|bc]|2,11,2|second-empty,first-empty|[1|1][1|1]|3,21"},
		{"statements with braces of their own after a return are part of the same block", `<% let f = fn(a, b) { if (a == "q") { return "C"
 if (b == "y") { mark() }
 for (z) in [1] { mark() }
 let h = {"k": 1}
 if (true) { return "D" } }
 return "E" } %><%= f("q", "y") %>|<%= f("z", "y") %>|<% let g = fn(a) { return a
 if (true) { mark() } else { mark() }
 return "dead" } %><%= g("G") %>|<%= f("q", "n") %>`, "C|E|G|C"},
		{"a callee invoked from a function without parameters and lets still runs in its own scope", `<% let a = 100 %><% let g = fn(a) { return a + 1 } %><% let f = fn() { let r = g(1)
 return r + a } %><% let h = fn() { return g(5) + a } %><% let k = fn() { return h() + g(7) + a } %><%= f() %>|<%= h() %>|<%= k() %>|<%= a %>`, "102|106|214|100"},
		{"arguments that are paths rooted at a variable named like an earlier parameter", `<% let last = fn(n, v) { if (n) { return last(n.Kid, n.Name) }
 return v } %><% let two = fn(a, b) { return a.Name + "-" + b } %><% let a = pers %><% let n = pers %><%= last(n.Kid, n.Name) %>|<%= two(a.Kid, a.Name) %>|<%= two(pers.Kid, a.Name) %>|<% let sw = fn(a, b) { return a + "/" + b } %><%= sw(b, a.Name) %>`, "K|K-N|K-N|A/N"},
		{"apply with two different functions", `<% let f1 = fn(a) { return a + "1" } %><% let f2 = fn(a) { return a + "2" } %><% let apply = fn(g, v) { return g(v) } %><%= apply(f1, "A") %>|<%= apply(f2, "A") %>|<%= apply(f1, apply(f2, "B")) %>`, "A1|A2|B21"},
		{"rebound function variable", `<% let h = fn(a) { return "p" + a } %><%= h("1") %><% h = fn(a) { return "q" + a } %>|<%= h("1") %><% let k = h %>|<%= k("2") %>`, "p1|q1|q2"},
		{"parameter named like a defined function", `<% let f = fn(a) { return "outer" + a } %><% let call = fn(f, v) { return f(v) } %><% let other = fn(a) { return "param" + a } %><%= call(other, "1") %>|<%= f("2") %>|<%= call(f, "3") %>`, "param1|outer2|outer3"},
		{"recursion with a nil accumulator", `<% let walk = fn(n, acc) { if (n == 0) { if (acc) { return "seen" } return "fresh" }
 return walk(n - 1, nil) } %><%= walk(0, nil) %>|<%= walk(0, "x") %>|<%= walk(2, "x") %>`, "fresh|seen|fresh"},
		{"through go helper", `<% let f = fn(a) { return a + "x" } %><% let g = idf(f) %><%= g("A") %>`, "Ax"},
		{"function as argument to itself", `<% let twice = fn(g, v) { return g(g(v)) } %><% let f = fn(a) { return a + "y" } %><%= twice(f, "A") %>`, "Ayy"},
		{"countdown", `<% let cd = fn(n) { if (n == 0) { return "done" }
 return cd(n - 1) } %><%= cd(5) %>`, "done"},
		{"factorial", `<% let fact = fn(n) { if (n == 0) { return 1 }
 return n * fact(n - 1) } %><%= fact(5) %>|<%= fact(0) %>|<%= fact(3) + fact(4) %>`, "120|1|30"},
		{"fibonacci", `<% let fib = fn(n) { if (n < 2) { return n }
 return fib(n - 1) + fib(n - 2) } %><%= fib(10) %>`, "55"},
		{"mutual recursion", `<% let even = fn(n) { if (n == 0) { return true }
 return odd(n - 1) } %><% let odd = fn(n) { if (n == 0) { return false }
 return even(n - 1) } %><%= even(4) %>|<%= even(3) %>|<%= if (odd(3)) { %>odd<% } %>`, "true|false|odd"},
		{"params do not leak", `<% let f = fn(a, b) { return a + b } %><%= f("1", "2") %>|<%= a %>|<%= b %>`, "12|B|A"},
		{"args in caller scope", `<% let f = fn(a, b) { return a + "," + b } %><%= f(b, a) %>|<%= f(a, a) %>|<%= f(b + a, a + b) %>`, "A,B|B,B|AB,BA"},
		{"first return wins in nested blocks", `<% let f = fn(a) { if (a == "A") { if (true) { return "in" }
 return "mid" }
 return "out" } %><%= f("A") %>|<%= f("B") %>`, "in|out"},
		{"int results in arithmetic", `<% let sq = fn(n) { return n * n } %><%= sq(3) + 1 %>|<%= sq(2) * sq(3) %>|<%= sq(sq(2)) %>|<%= sq(4) > 15 %>`, "10|36|16|true"},
		{"result as index and iterable", `<% let idx = fn() { return 1 } %><% let lst = fn() { return ["p", "q"] } %><%= lst()[idx()] %>|<%= for (v) in lst() { %><%= v %><% } %>`, "q|pq"},
	}
	// nil arguments: a parameter bound to nil must not fall through to a same-named caller variable
	nilArgs := []c16Arg{{"nil", ""}, {`"x"`, "x"}, {"a", "B"}, {"b", "A"}}
	for p := 1; p <= 3; p++ {
		var rec func(cur []c16Arg)
		rec = func(cur []c16Arg) {
			if len(cur) == p {
				var as []string
				want := "none"
				for i := len(cur) - 1; i >= 0; i-- {
					as = append([]string{cur[i].src}, as...)
				}
				for i := 0; i < len(cur); i++ {
					if cur[i].val != "" {
						want = c16Params[i] + "=" + cur[i].val
						break
					}
				}
				var body strings.Builder
				for i := 0; i < p; i++ {
					fmt.Fprintf(&body, "if (%s) { return %q + %s }\n", c16Params[i], c16Params[i]+"=", c16Params[i])
				}
				src := `<% let f = fn(` + strings.Join(c16Params[:p], ", ") + `) { ` + body.String() + ` return "none" } %><%= f(` + strings.Join(as, ", ") + `) %>`
				cases = append(cases, struct{ name, src, want string }{"nil-argument binding", src, want})
				return
			}
			for _, a := range nilArgs {
				rec(append(cur[:len(cur):len(cur)], a))
			}
		}
		rec(nil)
	}
	// a return nested d blocks deep (if / else / else-if mixtures) yields a plain value at every depth
	for d := 0; d <= 9; d++ {
		body := `return a + 1`
		for i := 0; i < d; i++ {
			switch i % 3 {
			case 0:
				body = `if (true) { ` + body + ` }`
			case 1:
				body = `if (false) { return 0 } else { ` + body + ` }`
			case 2:
				body = `if (false) { return 0 } else if (true) { ` + body + ` }`
			}
		}
		def := `<% let pick = fn(a) { ` + body + `
 return 99 } %>`
		cases = append(cases, struct{ name, src, want string }{fmt.Sprintf("return nested %d blocks deep, used as a value", d),
			def + `<%= pick(6) == 7 %>|<%= pick(6) + 1 %>|<%= 1 + pick(6) %>|<%= if (pick(6) == 7) { %>T<% } %>|<%= pick(pick(6)) %>|<% let r = pick(1) %><%= r * 2 %>|<%= [pick(2)][0] + 1 %>|<%= rec(pick(3)) %>`,
			"true|8|8|T|8|4|4|4"})
	}
	// many calls, one after the other from the same scope, and a deep legitimate recursion
	{
		var want strings.Builder
		for i := 1; i <= 700; i++ {
			fmt.Fprintf(&want, "%d,", i+1)
		}
		cases = append(cases, struct{ name, src, want string }{"700 calls in a row from a loop body", `<% let inc = fn(a) { return a + 1 } %><%= for (i) in range(1, 700) { %><%= inc(i) %>,<% } %>`, want.String()})
		var tags, wt strings.Builder
		tags.WriteString(`<% let inc = fn(a) { return a + 1 } %>`)
		for i := 1; i <= 400; i++ {
			fmt.Fprintf(&tags, "<%%= inc(%d) %%>", i)
			fmt.Fprintf(&wt, "%d", i+1)
		}
		cases = append(cases, struct{ name, src, want string }{"400 calls in a row from top-level tags", tags.String(), wt.String()})
		cases = append(cases, struct{ name, src, want string }{"recursion 60 deep, twice", `<% let sum = fn(n) { if (n == 0) { return 0 }
 return n + sum(n - 1) } %><%= sum(60) %>|<%= sum(60) %>`, "1830|1830"})
	}
	// a path written after the call continues from the result, in the CALLER's scope: indexes and arguments in it that
	// use a name the function binds too (parameter, let) mean the caller's variable
	cases = append(cases,
		struct{ name, src, want string }{"index after the call names a variable the function binds as parameter", `<% let pick = fn(i) { return pers } %><% let i = 0 %><%= pick(1).Tags[i] %>|<%= pick(0).Tags[i + 1] %>`, "t0|t1"},
		struct{ name, src, want string }{"index after the call names a variable the function lets", `<% let pick = fn() { let i = 1
 return pers } %><% let i = 0 %><%= pick().Tags[i] %>`, "t0"},
		struct{ name, src, want string }{"method argument after the call names a parameter", `<% let pick = fn(a) { return pers } %><% let a = 5 %><%= pick(1).Add(a) %>`, "6"},
		struct{ name, src, want string }{"map key after the call names a parameter", `<% let pick = fn(k) { return pers } %><% let k = "k" %><%= pick("zz").Attrs[k] %>`, "v"},
		struct{ name, src, want string }{"path after the call inside another function with swapped names", `<% let pick = fn(i, j) { return pers } %><% let outer = fn(j, i) { let a = pick(1, 1).Tags[i]
 let b = pick(0, 0).Tags[j]
 return a + b } %><%= outer(1, 0) %>`, "t0t1"},
		struct{ name, src, want string }{"path after the call names a variable unknown to the caller", `<% let pick = fn(i) { return pers } %><%= if (true) { %><% let r = "" %><% } %><%= pick(1).Tags[0] %>`, "t0"},
		// parameters whose names repeat: every position still takes its own argument
		struct{ name, src, want string }{"two ignored parameters then a named one", `<% let f = fn(_, _, x) { return x } %><%= f(1, 2, 3) %>`, "3"},
		struct{ name, src, want string }{"ignored parameters around named ones", `<% let f = fn(_, a, _, b) { return a + b } %><%= f(1, 20, 3, 400) %>`, "420"},
		struct{ name, src, want string }{"one ignored parameter", `<% let f = fn(_, x) { return x } %><%= f(1, 2) %>`, "2"},
	)
	// a parameter may be spelled _ like any other name: the body reads its argument under that name
	cases = append(cases,
		struct{ name, src, want string }{"parameter named _ read in the body", `<% let f = fn(_) { return _ } %><%= f(5) %>|<%= f("s") %>`, "5|s"},
		struct{ name, src, want string }{"parameter named _ decides a branch", `<% let pick = fn(_, b) { if (_ == "a") { return b } return "other" } %><%= pick("a", "hit") %>|<%= pick("z", "hit") %>`, "hit|other"},
		struct{ name, src, want string }{"parameter named _ inside a loop whose key is _ too", `<% let f = fn(_) { return _ } %><%= for (x) in [10, 20] { %><%= f("arg") %><%= _ %>,<% } %>`, "arg0,arg1,"},
		struct{ name, src, want string }{"parameters _ and _0", `<% let f = fn(_, _0) { return _ + _0 } %><%= f("a", "b") %>`, "ab"},
	)
	// names answered by a Go context the root context wraps are the caller's scope too: readable inside function
	// bodies, in arguments of calls made there, through recursion and through functions passed as parameters
	for _, c := range []struct{ src, want string }{
		{`<% let f = fn(n) { if (role == "admin") { return n * 2 } return n } %><%= f(21) %>`, "42"},
		{`<% let g = fn(r) { return r } %><% let f = fn() { return g(role) } %><%= f() %>|<%= g(role) %>`, "admin|admin"},
		{`<% let down = fn(n) { if (n == 0) { return role } return down(n - 1) } %><%= down(3) %>`, "admin"},
		{`<% let ap = fn(h, x) { return h(x) } %><% let tag = fn(x) { return x + ":" + role } %><%= ap(tag, "u") %>`, "u:admin"},
		{`<% let f = fn(role) { return role } %><%= f("param") %>|<%= role %>`, "param|admin"},
		{`<%= for (i) in [1] { %><% let f = fn() { return role + limit } %><%= f() %><% } %>`, "admin7"},
	} {
		c := c
		t.Case("special wrapped Go context "+q(c.src), true, func() (string, *engine.Fail) {
			plush.CacheEnabled = false
			ctx := plush.NewContextWithContext(context.WithValue(context.WithValue(context.Background(), "role", "admin"), "limit", 7))
			out, err := plush.Render(c.src, ctx)
			if err != nil || out != c.want {
				return "", engine.Failf("mismatch", "expected %q, got %q / %v", c.want, out, err)
			}
			return "match", nil
		})
	}
	// a name that repeats in the parameter list: the call is refused or binds the name to one of the arguments
	// given for it - the arity stays what was written
	for _, src := range []string{`<% let f = fn(a, a) { return a } %><%= f(1, 2) %>`, `<% let f = fn(a, b, a) { return a + b } %><%= f(1, 20, 300) %>`} {
		src := src
		t.Case("special repeated parameter name "+q(src), true, func() (string, *engine.Fail) {
			e := &c16Env{}
			out, err := Render(src, e.context())
			if err != nil {
				if strings.Contains(err.Error(), "too many arguments") {
					return "", engine.Failf("mismatch", "a call with as many arguments as written parameters was refused: %v", err)
				}
				return "rejected", nil
			}
			ok := map[string]bool{"1": true, "2": true, "21": true, "320": true}
			if !ok[out] {
				return "", engine.Failf("mismatch", "rendered %q", out)
			}
			return "bound", nil
		})
	}
	// a path after the call that uses a name only the function binds: the caller does not know it
	for _, src := range []string{`<% let pick = fn(zi) { return pers } %><%= pick(1).Tags[zi] %>`, `<% let pick = fn() { let zj = 1
 return pers } %><%= pick().Tags[zj] %>`, `<% let pick = fn(za) { return pers } %><%= pick(1).Add(za) %>`} {
		src := src
		t.Case("special callee name in the caller's path "+q(src), true, func() (string, *engine.Fail) {
			e := &c16Env{}
			out, err := Render(src, e.context())
			if err == nil && strings.Contains(out, "t1") || out == "2" {
				return "", engine.Failf("mismatch", "a name bound only inside the function was readable in the caller's path: rendered %q", out)
			}
			return "not-visible", nil
		})
	}
	// more arguments than parameters: the call fails, or at least every argument is evaluated - surplus arguments
	// are never dropped unevaluated
	for _, src := range []string{
		`<% let f = fn(x) { return x } %><%= f("a", nope) %>`, `<% let f = fn() { return 1 } %><%= f(nope) %>`,
		`<% let f = fn(x) { return x } %><%= f("a", rec("b")) %>`, `<% let f = fn(x, y) { return x } %><%= f("a", "b", rec("c"), rec("d")) %>`,
	} {
		src := src
		t.Case("special surplus arguments "+q(src), true, func() (string, *engine.Fail) {
			e := &c16Env{}
			out, err := Render(src, e.context())
			if err != nil {
				return "rejected", nil
			}
			want := strings.Count(src, "rec(")
			if strings.Contains(src, "nope") || len(e.seen) != want {
				return "", engine.Failf("arguments", "surplus arguments were dropped without being evaluated (rendered %q, %d of %d recording arguments evaluated)", out, len(e.seen), want)
			}
			return "evaluated", nil
		})
	}
	for _, c := range cases {
		c := c
		t.Case("special "+c.name+" "+q(c.src), true, func() (string, *engine.Fail) {
			e := &c16Env{}
			out, err := Render(c.src, e.context())
			if err != nil || out != c.want {
				return "", engine.Failf("mismatch", "expected %q, got %q / %v", c.want, out, err)
			}
			return "match", nil
		})
	}
}

// c16LoopReturn: a return reached inside a for loop of the function body is the function's first return
// reached: it ends the loop and the function, nothing after it runs. (On the pinned tree this is a recorded
// finding, pattern return-in-loop: the loop swallows the return.)
func c16LoopReturn(t *engine.T) {
	iters := []struct {
		name, src string
		elems     []string
	}{
		{"array literal", `["A", "B", "C"]`, []string{"A", "B", "C"}},
		{"context slice", `lst`, []string{"A", "B", "C"}},
		{"iterator", `seq()`, []string{"A", "B", "C"}},
		{"hash literal", `{"k": "B"}`, []string{"B"}},
	}
	shapes := []string{"search", "first", "nested", "in-if"}
	for _, it := range iters {
		for _, sh := range shapes {
			for _, arg := range []string{"A", "B", "C", "Z"} {
				var body string
				switch sh {
				case "search":
					body = `for (v) in ` + it.src + ` { tick()
 if (v == a) { return v + "x"
 mark() } }
 return "none"`
				case "first":
					body = `for (v) in ` + it.src + ` { tick()
 return v + "x"
 mark() }
 return "none"`
				case "nested":
					body = `for (w) in [1, 2] { for (v) in ` + it.src + ` { tick()
 if (v == a) { return v + "x" } } }
 return "none"`
				case "in-if":
					body = `if (true) { for (v) in ` + it.src + ` { tick()
 if (v == a) { return v + "x" } } }
 return "none"`
				}
				// reference: which return is reached first, and how many loop iterations run before it
				want, ticks, inLoop := "none", 0, false
				rounds := 1
				if sh == "nested" {
					rounds = 2
				}
			outer:
				for r := 0; r < rounds; r++ {
					for _, e := range it.elems {
						ticks++
						if sh == "first" || e == arg {
							want, inLoop = e+"x", true
							break outer
						}
					}
				}
				def := `<% let f = fn(a) { ` + body + ` } %>`
				for _, u := range []string{"emit", "cond", "concat", "let", "eq"} {
					var src, expect string
					switch u {
					case "emit":
						src, expect = def+`[<%= f("`+arg+`") %>]`, "["+want+"]"
					case "cond":
						src, expect = def+`<%= if (f("`+arg+`") == "none") { %>N<% } else { %>Y<% } %>`, map[bool]string{true: "N", false: "Y"}[want == "none"]
					case "concat":
						src, expect = def+`<%= "<" + f("`+arg+`") + ">" %>`, "&lt;"+want+"&gt;"
					case "let":
						src, expect = def+`<% let r = f("`+arg+`") %><%= r %>|<%= r %>`, want+"|"+want
					case "eq":
						src, expect = def+`<%= f("`+arg+`") == "`+want+`" %>`, "true"
					}
					wantTicks := ticks
					if inLoop {
						t.Pattern = "return-in-loop"
					}
					t.Case(fmt.Sprintf("loop-return %s %s use=%s %s", it.name, sh, u, q(src)), true, func() (string, *engine.Fail) {
						e := &c16Env{}
						c := e.context()
						ticked := 0
						c.Set("tick", func() string { ticked++; return "" })
						c.Set("lst", []string{"A", "B", "C"})
						c.Set("seq", func() plush.Iterator { return &c08ListIter{items: []interface{}{"A", "B", "C"}} })
						out, err := Render(src, c)
						if err != nil {
							return "", engine.Failf("mismatch", "expected %q, got error %v", expect, err)
						}
						if out != expect {
							return "", engine.Failf("mismatch", "expected %q (value of the first return reached), got %q", expect, out)
						}
						if e.marks != 0 {
							return "", engine.Failf("after-return", "a statement after the first return reached was executed %d times", e.marks)
						}
						if ticked != wantTicks {
							return "", engine.Failf("after-return", "%d loop iterations ran, the first return is reached in iteration %d", ticked, wantTicks)
						}
						if inLoop {
							return "return-inside-loop", nil
						}
						return "return-after-loop", nil
					})
				}
			}
		}
	}
}
