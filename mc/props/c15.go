package props

import (
	"fmt"
	"html/template"
	"regexp"
	"strconv"
	"strings"

	"verifmc/engine"

	plush "github.com/gobuffalo/plush/v5"
)

// C15 — every template error names the line of the failing tag, invariant under shifting.

var c15Pre = []struct{ name, src string }{
	{"text-line", "t\n"},
	{"text-2-lines", "a\nb\n"},
	{"tag", `<% let p1 = 1 %>`},
	{"tag-nl", "<% let p1 = 1 %>\n"},
	{"multiline-tag", "<%\n let p2 = 2\n%>\n"},
	{"line-comments", "<% # c1\n # c2\n let p3 = 3 %>"},
	{"multiline-string", "<% let p4 = \"x\ny\" %>"},
	{"multiline-bstring", "<% let p5 = `x\ny\nz` %>"},
	{"multiline-comment-tag", "<%# a\nb %>"},
	{"crlf", "w\r\n"},
	{"output-tag", `<%= 1 %>`},
	{"block-over-lines", "<%= if (true) { %>\nq\n<% } %>"},
	{"for-over-lines", "<%= for (v) in one {\n %>z<%\n } %>\n"},
	{"escaped-tag", "\\<%= x\n %>"},
}

type c15Fail struct {
	name, src string
	parse     bool
	multiline bool // failing tag spans lines: N within its extent
	exact     int  // >0: N must be exactly (first line of src) + exact - 1 (the line on which the failing tag begins)
	inner     bool // the message also carries line numbers of another template (a partial): only the leading N shifts
}

var c15Fails = []c15Fail{
	{"unknown-ident", `<%= nope %>`, false, false, 0, false},
	{"failing-helper", `<%= fail() %>`, false, false, 0, false},
	{"type-error", `<%= 1 + "a" %>`, false, false, 0, false},
	{"index-out-of-range", `<%= one[5] %>`, false, false, 0, false},
	{"div-by-zero", `<%= 1 / 0 %>`, false, false, 0, false},
	{"assign-unknown", `<% zz = 1 %>`, false, false, 0, false},
	{"silent-unknown", `<% nope %>`, false, false, 0, false},
	{"let-unknown", `<% let q = nope %>`, false, false, 0, false},
	{"unknown-func", `<%= nofn(1) %>`, false, false, 0, false},
	{"not-iterable", `<%= for (v) in 5 { %>x<% } %>`, false, false, 0, false},
	{"syntax-let", `<% let = 1 %>`, true, false, 0, false},
	{"syntax-call", `<%= foo(1 %>`, true, false, 0, false},
	{"syntax-if", `<%= if (true { %>x<% } %>`, true, false, 0, false},
	{"syntax-prefix", `<%= * 2 %>`, true, false, 0, false},
	{"syntax-bracket", `<%= [1, 2 %>`, true, false, 0, false},
	{"syntax-hash", `<%= {"a" 1} %>`, true, false, 0, false},
	{"big-int", `<%= 99999999999999999999 %>`, true, false, 0, false},
	{"bad-float", `<%= 1.5e %>`, true, false, 0, false},
	{"illegal-number", `<%= 1.2.3 %>`, true, false, 0, false},
	{"break-outside-loop", `<% break %>`, true, false, 0, false},
	{"for-missing-paren", `<%= for (v in one { %>x<% } %>`, true, false, 0, false},
	{"syntax-call-open", `<%= foo( %>`, true, false, 0, false},
	{"syntax-call-comma", `<%= foo(1, %>`, true, false, 0, false},
	{"syntax-index-open", `<%= one[ %>`, true, false, 0, false},
	{"ident-then-newline", "<%= nope\n %>", false, true, 1, false},
	{"silent-ident-then-newline", "<% nope\n %>", false, true, 1, false},
	{"let-then-newline", "<% let q = nope\n %>", false, true, 1, false},
	{"opener-then-newline", "<%=\nnope %>", false, true, 1, false},
	{"after-fn-call-in-same-statement", "<% let fq = fn() {\n return 1\n } %>\n<%= fq() + nope %>", false, true, 4, false},
	{"after-fn-call-in-array", "<% let fq = fn(a) {\n return a } %>\nb\n<%= fq(1) %><%= [fq(2), nope] %>", false, true, 4, false},
	{"after-fn-call-in-helper-arg", "<% let fq = fn() {\n\n return 1 } %><%= fail2(fq()) %>", false, true, 3, false},
	{"multiline-unknown", "<%=\n nope\n %>", false, true, 0, false},
	{"multiline-type-error", "<%= 1 +\n \"a\"\n %>", false, true, 0, false},
	{"unterminated-string", "<%= foo(\"abc\ndef) %>\nmore", true, true, 0, false},
	// the failure is in the header of a statement whose block runs over several tags and lines
	{"silent-if-condition-over-lines", "<% if (1 + \"a\" == 1) { %>\n x\n<% } %>", false, true, 1, false},
	{"if-condition-over-lines", "<%= if (1 + \"a\" == 1) { %>\n x\n<% } else { %>\n y\n<% } %>", false, true, 1, false},
	{"else-if-condition-on-a-later-line", "<%= if (false) { %>\n x\n<% } else if (1 + \"a\" == 1) { %>\n y\n<% } %>", false, true, 3, false},
	{"silent-else-if-condition-on-a-later-line", "<% if (false) { %>\n x\n<% } else if (nope.x) { %>\n y\n<% } else { %>z<% } %>", false, true, 3, false},
	{"second-else-if-condition-on-a-later-line", "<%= if (false) { %>\n x\n<% } else if (false) { %>\n y\n\n<% } else if (fail()) { %>w<% } %>", false, true, 6, false},
	{"else-if-block-statement-on-a-later-line", "<%= if (false) { %>\n x\n<% } else if (true) { %>\n y\n<%= nope %><% } %>", false, true, 5, false},
	{"else-block-statement-on-a-later-line", "<%= if (false) { %>\n x\n<% } else { %>\n y\n<%= nope %><% } %>", false, true, 5, false},
	{"else-if-condition-calling-a-function-that-fails-inside", "<% let fe = fn() {\n return nope + 1\n } %>\n<%= if (false) { %>a\n<% } else if (fe()) { %>b<% } %>", false, true, 2, false},
	{"if-condition-calling-a-function-that-fails-inside", "<% let fe = fn() {\n\n return nope + 1 } %>\n<%= if (fe()) { %>a\n<% } else if (true) { %>b<% } %>", false, true, 3, false},
	{"failure-in-the-else-block-after-false-else-ifs", "<%= if (false) { %>a\n<% } else if (false) { %>b\n<% } else if (nope) { %>c\n<% } else { %>\n<%= nope %><% } %>", false, true, 5, false},
	{"failure-after-an-if-chain-in-the-same-tag", "<% if (false) { %>a\n<% } else if (false) { %>b\n<% }\n let q = nope %>", false, true, 0, false},
	{"silent-for-not-iterable-over-lines", "<% for (v) in 5 { %>\n x\n<% } %>", false, true, 1, false},
	{"silent-failing-block-helper-over-lines", "<% failb() { %>\n x\n<% } %>", false, true, 1, false},
	{"failing-block-helper-over-lines", "<%= failb() { %>\n x\n\n<% } %>", false, true, 1, false},
	{"silent-let-of-failing-block-helper", "<% let q = failb() { %>\n x\n<% } %>", false, true, 1, false},
	{"silent-multiline-call", "<% fail2(\n 1\n) %>", false, true, 0, false},
	// the line is taken from a token that is a string running over several lines
	// the failing statement is a partial call; the partial fails on a line of its own (at its top level / inside a helper's block)
	{"partial-failing-at-its-top-level", `<%= partial("ptop") %>`, false, false, 1, true},
	{"partial-failing-inside-a-helper-block", `<%= partial("pblk") %>`, false, false, 1, true},
	{"partial-with-layout-failing-inside-a-helper-block", `<%= partial("pblk", {"layout": "play"}) %>`, false, false, 1, true},
	{"silent-let-of-partial-failing-inside-a-helper-block", "<% let q =\n partial(\"pblk\") %>", false, true, 0, true},
	// a stored contentFor block fails when contentOf runs it: the failing statement is the one inside the block
	{"stored-block-failing-when-used", "<% contentFor(\"cfail\") { %>a\n<%= nope %><% } %>\nb\n<%= contentOf(\"cfail\") %>", false, true, 2, false},
	{"stored-block-failing-in-a-nested-helper-block", "<% contentFor(\"cfail2\") { %>a\n\n<%= blk() { %><%= 1 / 0 %><% } %><% } %>\nb\n<%= contentOf(\"cfail2\", {\"k\": 1}) %>", false, true, 3, false},
	{"illegal-number-then-newline", "<%= 1.2.3\n %>", true, true, 1, false},
	{"illegal-leading-dot-number-then-newline", "<% let q = .5.5\n %>", true, true, 1, false},
	{"syntax-error-after-multiline-string", "<%= foo(1, \"a\nb\" %>", true, true, 1, false},
	{"syntax-error-after-multiline-bstring", "<%= {`k\n1` 2} %>", true, true, 1, false},
	{"statement-begins-with-multiline-string", "<% \"x\ny\" - 1 %>", false, true, 1, false},
	{"statement-begins-with-multiline-bstring", "<%= `x\n\ny` - 1 %>", false, true, 1, false},
}

var c15Wraps = []struct{ name, pre, post string }{
	{"top", "", ""},
	{"in-if", "<%= if (true) { %>\n", "\n<% } %>"},
	{"in-else", "<%= if (false) { %>n<% } else { %>\n", "\n<% } %>"},
	{"in-for", "<%= for (v) in one { %>\n", "\n<% } %>"},
	{"in-fn", "<% let f = fn() { %>\n", "\n<% } %>\n\n<%= f() %>"},
	{"in-block", "<%= blk() { %>\n", "\n<% } %>"},
	{"in-for-if", "<%= for (v) in one { %>\n<%= if (v == 7) { %>\n", "\n<% } %>\n<% } %>"},
}

var c15LineRe = regexp.MustCompile(`line (\d+):`)

func c15Context() *plush.Context {
	c := plush.NewContext()
	c.Set("one", []int{7})
	c.Set("x", 1)
	c.Set("fail", func() (string, error) { return "", ErrSentinel })
	c.Set("fail2", func(i int) (string, error) { return "", ErrSentinel })
	c.Set("failb", func(help plush.HelperContext) (string, error) { return "", ErrSentinel })
	c.Set("partialFeeder", func(name string) (string, error) {
		switch name {
		case "ptop":
			return "p\n\n<%= nope %>", nil
		case "pblk":
			return "p\n\n\n<%= blk() { %>\n<%= nope %><% } %>", nil
		case "play":
			return "<l>\n<%= yield %></l>", nil
		}
		return "", fmt.Errorf("no partial %q", name)
	})
	c.Set("blk", func(help plush.HelperContext) (template.HTML, error) {
		s, err := help.Block()
		return template.HTML(s), err
	})
	return c
}

func c15Shift(msg string, k int) string {
	return c15LineRe.ReplaceAllStringFunc(msg, func(m string) string {
		n, _ := strconv.Atoi(c15LineRe.FindStringSubmatch(m)[1])
		return fmt.Sprintf("line %d:", n+k)
	})
}

func init() {
	engine.Register(&engine.Prop{
		ID: "C15",
		Shards: func(th bool) []string {
			var s []string
			for i := range c15Fails {
				s = append(s, fmt.Sprintf("%d", i))
			}
			return s
		},
		Run:  c15Run,
		Rule: "templates = every sequence of <=3 (4 thorough) preceding items from 14 (text lines, CRLF, single/multi-line tags, # comment lines, multi-line double- and back-quoted strings, multi-line comment tag, output tag, if/for blocks spanning lines, escaped tag) followed by one failing statement of 62 kinds (incl. a stored contentFor block failing when contentOf runs it: the line of the statement inside the block) (incl. partial calls whose partial fails on a line of its own, at its top level or inside a helper's block: the caller's error leads with the line of the call and only that number shifts; (failures reported at a multi-line string token) (10 runtime faults, 14 syntax-error families incl. un-parsable numbers, break outside a loop and argument lists cut by the closing tag, tokens directly followed by a newline, failures after a multi-line user function was called in the same statement, 2 multi-line failing tags, failures in the header of a statement whose block spans several tags and lines (if condition, else-if conditions and else-if / else block statements on later lines, non-iterable for, failing block helper - silent and emitting), unterminated string at EOF) at top level or inside if / else / for / fn (called later) / helper block / for+if bodies, followed by trailing text; then shifted by k in {1,2,3} leading newlines. For templates without preceding items the shifts are repeated with the template cache on (unshifted text first, two passes) and through a Template value (NewTemplate / a literal Template; a text that did not parse has its Input shifted and is parsed / executed again: the line of the current Input; a parsed one executed repeatedly and as a Clone: the same line). Oracle: (i) error starts with 'line N:'; (ii) N is the 1-based line on which the failing tag begins (within the tag's lines when it spans several / within the string's lines for an unterminated string); (iii) the shifted template's error equals the original with every 'line n:' replaced by 'line n+k:'. Non-trivial: at least one newline precedes the failing tag.",
		Bound: func(th bool) string {
			if th {
				return "<=4 preceding items, 7 placements, shifts 1..3"
			}
			return "<=3 preceding items, 7 placements, shifts 1..3"
		},
	})
}

func c15Run(t *engine.T, shard string) {
	var fi int
	fmt.Sscan(shard, &fi)
	fl := c15Fails[fi]
	maxPre := 3
	if t.Thorough {
		maxPre = 4
	}
	var rec func(seq []int)
	rec = func(seq []int) {
		c15One(t, fl, seq)
		if len(seq) == maxPre {
			return
		}
		for i := range c15Pre {
			rec(append(seq[:len(seq):len(seq)], i))
		}
	}
	rec(nil)
}

func c15One(t *engine.T, fl c15Fail, seq []int) {
	var pre strings.Builder
	var names []string
	for _, i := range seq {
		pre.WriteString(c15Pre[i].src)
		names = append(names, c15Pre[i].name)
	}
	for _, w := range c15Wraps {
		if fl.name == "unterminated-string" && w.name != "top" {
			continue
		}
		if fl.name == "break-outside-loop" && strings.Contains(w.name, "for") {
			continue
		}
		head := pre.String() + w.pre
		src := head + fl.src + w.post + "\ntail"
		if fl.name == "unterminated-string" {
			src = head + fl.src
		}
		first := strings.Count(head, "\n") + 1
		last := first + strings.Count(fl.src, "\n")
		desc := fmt.Sprintf("lines pre=[%s] place=%s fail=%s %q", strings.Join(names, " "), w.name, fl.name, src)
		t.Case(desc, first > 1, func() (string, *engine.Fail) {
			_, err := Render(src, c15Context())
			if err == nil {
				return "", engine.Failf("harness", "the failing statement did not fail")
			}
			msg := err.Error()
			m := c15LineRe.FindStringSubmatchIndex(msg)
			if m == nil || m[0] != 0 {
				return "", engine.Failf("no-line-prefix", "error does not start with 'line N:': %q", msg)
			}
			n, _ := strconv.Atoi(msg[m[2]:m[3]])
			if fl.exact > 0 && n != first+fl.exact-1 {
				return "", engine.Failf("wrong-line", "failing tag begins on line %d, error says %q", first+fl.exact-1, msg)
			}
			if n < first || n > last {
				if fl.multiline {
					return "", engine.Failf("wrong-line", "failing tag spans lines %d..%d, error says %q", first, last, msg)
				}
				return "", engine.Failf("wrong-line", "failing tag begins on line %d, error says %q", first, msg)
			}
			for k := 1; k <= 3; k++ {
				_, err2 := Render(strings.Repeat("\n", k)+src, c15Context())
				if err2 == nil {
					return "", engine.Failf("shift", "shifted by %d: no error", k)
				}
				want := c15Shift(msg, k)
				if fl.inner {
					// line numbers after the leading one belong to the partial's own text
					want = fmt.Sprintf("line %d:", n+k) + msg[m[1]:]
				}
				if err2.Error() != want {
					return "", engine.Failf("shift", "shifted by %d newlines: expected %q, got %q", k, want, err2.Error())
				}
			}
			if len(names) == 0 {
				// through a Template value: a text that does not parse is parsed again by the next Parse / Exec, so the
				// line is the one in the template's current Input; a parsed template reports the same line every time
				for _, tm := range []*plush.Template{func() *plush.Template { tm, _ := plush.NewTemplate(src); return tm }(), {Input: src}} {
					if tm == nil {
						return "", engine.Failf("harness", "NewTemplate returned no template")
					}
					if perr := tm.Parse(); perr != nil {
						if perr.Error() != msg {
							return "", engine.Failf("shift", "Template.Parse: expected %q, got %q", msg, perr.Error())
						}
						for _, k := range []int{2, 0, 1} {
							tm.Input = strings.Repeat("\n", k) + src
							want := c15Shift(msg, k)
							if e := tm.Parse(); e == nil || e.Error() != want {
								return "", engine.Failf("shift", "Template.Parse after Input was shifted by %d newlines: expected %q, got %v", k, want, e)
							}
							if _, e := tm.Exec(c15Context()); e == nil || e.Error() != want {
								return "", engine.Failf("shift", "Template.Exec after Input was shifted by %d newlines: expected %q, got %v", k, want, e)
							}
						}
					} else {
						for _, x := range []*plush.Template{tm, tm, tm.Clone(), tm} {
							if _, e := x.Exec(c15Context()); e == nil || e.Error() != msg {
								return "", engine.Failf("shift", "Template.Exec (repeated / Clone): expected %q, got %v", msg, e)
							}
						}
					}
				}
				// the same with the template cache on: the unshifted text is rendered (and cached) first
				plush.VerifCacheReset()
				plush.CacheEnabled = true
				defer func() { plush.CacheEnabled = false; plush.VerifCacheReset() }()
				for pass := 0; pass < 2; pass++ {
					for k := 0; k <= 2; k++ {
						_, err2 := plush.Render(strings.Repeat("\n", k)+src, c15Context())
						want := c15Shift(msg, k)
						if fl.inner {
							want = fmt.Sprintf("line %d:", n+k) + msg[m[1]:]
						}
						if err2 == nil || err2.Error() != want {
							return "", engine.Failf("shift", "cache on, pass %d, shifted by %d newlines: expected %q, got %v", pass+1, k, want, err2)
						}
					}
				}
			}
			if fl.parse {
				return "parse-error-line-ok", nil
			}
			return "runtime-error-line-ok", nil
		})
	}
}
