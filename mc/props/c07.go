package props

import (
	"context"
	"fmt"
	"html/template"
	"reflect"
	"strings"

	"verifmc/engine"

	plush "github.com/gobuffalo/plush/v5"
)

// C07 — branch selection and uniform truthiness.

func c07Truthy(v interface{}) bool {
	if v == nil {
		return false
	}
	switch t := v.(type) {
	case bool:
		return t
	case string:
		return t != ""
	case template.HTML:
		return t != ""
	}
	rv := reflect.ValueOf(v)
	if rv.Kind() == reflect.Ptr && rv.IsNil() {
		return false
	}
	return true
}

type c07Subject struct {
	src    string
	truthy bool
	noIf   bool
}

func c07Subjects() []c07Subject {
	var s []c07Subject
	for _, k := range c04Pool {
		s = append(s, c07Subject{k.name, c07Truthy(k.mk()), false})
	}
	s = append(s,
		c07Subject{"k_he", false, false}, // empty template.HTML
		c07Subject{"nope", false, false}, // unknown identifier
		c07Subject{"nil", false, false},
		c07Subject{"true", true, false}, c07Subject{"false", false, false},
		c07Subject{"0", true, false}, c07Subject{"1", true, false}, c07Subject{"0.0", true, false}, c07Subject{"1.5", true, false},
		c07Subject{`""`, false, false}, c07Subject{`"a"`, true, false}, c07Subject{"``", false, false},
		// array/hash literals are not admitted as if conditions by the parser (syntax error): other contexts only
		c07Subject{"[]", true, true}, c07Subject{"[1]", true, true}, c07Subject{"{}", true, true},
		c07Subject{"k_pst.NilKid", false, false}, c07Subject{"k_pst.Kid", true, false}, c07Subject{"k_pst.Name", true, false},
		c07Subject{"k_st.Tags", true, false}, c07Subject{`k_mss["zz"]`, false, false}, c07Subject{`k_mss["a"]`, true, false},
		c07Subject{"k_si[2]", false, false}, c07Subject{"k_si[0]", true, false},
		c07Subject{"ret(nil)", false, false}, c07Subject{"ret(0)", true, false}, c07Subject{`ret("")`, false, false},
		c07Subject{`raw("")`, false, false}, c07Subject{`raw("x")`, true, false},
		c07Subject{`uf("")`, false, false}, c07Subject{"uf(0)", true, false}, c07Subject{"uf(false)", false, false},
		// a typed nil pointer is falsy by whatever route it reaches the test
		c07Subject{"ret(k_npst)", false, false}, c07Subject{"uf(k_npst)", false, false},
		c07Subject{"nps[0]", false, false}, c07Subject{"nps[1]", true, false},
		c07Subject{`npm["k"]`, false, false}, c07Subject{`npm["p"]`, true, false},
		c07Subject{"retp()", false, false}, c07Subject{"k_pst.NilKid.NilKid", false, false},
		// a non-nil pointer is truthy whatever it points to
		c07Subject{"pbf", true, false}, c07Subject{"pse", true, false}, c07Subject{"phe", true, false}, c07Subject{"ppn", true, false}, c07Subject{"ret(pbf)", true, false}, c07Subject{"[pbf][0]", true, true},
		c07Subject{"[k_npst][0]", false, true}, c07Subject{`{"k": k_npst}["k"]`, false, true},
	)
	return s
}

var c07Contexts = []struct {
	name, pre, post string
	yes, no         string
}{
	{"if", `<%= if (`, `) { %>T<% } else { %>F<% } %>`, "T", "F"},
	{"silent-if", `<% let r = "F" %><% if (`, `) { r = "T" } %><%= r %>`, "T", "F"},
	{"else-if", `<%= if (false) { %>X<% } else if (`, `) { %>T<% } else { %>F<% } %>`, "T", "F"},
	{"not", `<%= !`, ` %>`, "false", "true"},
	{"notnot", `<%= !!`, ` %>`, "true", "false"},
	{"and-right", `<%= true && `, ` %>`, "true", "false"},
	{"and-left", `<%= `, ` && true %>`, "true", "false"},
	{"or-right", `<%= false || `, ` %>`, "true", "false"},
	{"or-left", `<%= `, ` || false %>`, "true", "false"},
	{"if-not", `<%= if (!`, `) { %>F<% } else { %>T<% } %>`, "T", "F"},
	{"if-and", `<%= if (`, ` && 1) { %>T<% } else { %>F<% } %>`, "T", "F"},
	{"in-for", `<%= for (v) in one { %><%= if (`, `) { %>T<% } else { %>F<% } %><% } %>`, "T", "F"},
	{"in-fn", `<% let g = fn() { if (`, `) { return "T" } return "F" } %><%= g() %>`, "T", "F"},
	{"in-block", `<%= blk() { %><%= if (`, `) { %>T<% } else { %>F<% } %><% } %>`, "{T}", "{F}"},
}

func c07Context(log *[]int) *plush.Context {
	c := c04Context()
	c.Set("k_he", template.HTML(""))
	c.Set("one", []int{7})
	c.Set("two", []int{7, 8})
	c.Set("ret", func(v interface{}) interface{} { return v })
	c.Set("retp", func() *Person { return nil })
	pbf, pse, phe := false, "", template.HTML("")
	var pn *Person
	c.Set("pbf", &pbf)
	c.Set("pse", &pse)
	c.Set("phe", &phe)
	c.Set("ppn", &pn)
	c.Set("nps", []*Person{nil, {Name: "P"}})
	c.Set("npm", map[string]*Person{"k": nil, "p": {Name: "P"}})
	c.Set("c", func(i int, v interface{}) interface{} {
		*log = append(*log, i)
		return v
	})
	c.Set("blk", func(help plush.HelperContext) (template.HTML, error) {
		s, err := help.Block()
		return template.HTML("{" + s + "}"), err
	})
	return c
}

var c07CondVals = []struct {
	src    string
	truthy bool
	bare   bool // not routed through the counting helper
}{{"true", true, false}, {"false", false, false}, {"0", true, false}, {`""`, false, false}, {`"a"`, true, false}, {"nil", false, false},
	{"nope", false, true}, {"!nope", true, true}}

func init() {
	engine.Register(&engine.Prop{
		ID: "C07",
		Shards: func(th bool) []string {
			s := []string{"matrix"}
			maxK := 3
			if th {
				maxK = 4
			}
			for k := 0; k <= maxK; k++ {
				for _, e := range []string{"else", "noelse"} {
					for _, style := range []string{"text", "return", "sparse"} {
						s = append(s, fmt.Sprintf("chain:%d:%s:%s", k, e, style))
					}
				}
			}
			return s
		},
		Run:  c07Run,
		Rule: "matrix: 93 subjects (61 injected value kinds incl. nil pointer/map/slice/func and empty HTML, unknown identifier, literals, field/index/helper/user-function results) x 14 syntactic contexts (if, silent if, else-if, !, !!, && and || on either side, if(!x), if(x && 1), inside for / fn / helper block): every context must report the truth value given by the statement's table (which makes them agree with each other). chains: if + k else-if (+ else), k<=3, every assignment of condition values from {true,false,0,\"\",\"a\",nil} through a counting helper plus the bare conditions nope / !nope (unknown identifier), blocks as text, as return, or with every second block empty, at top level, inside for / fn / helper block and evaluated twice (loop of two iterations, function called twice): exactly the first truthy block (or else / nothing) is rendered and conditions 0..j are evaluated once each, none after j. stateful conditions with identical text repeated along a chain (each occurrence is evaluated in turn); non-nil pointers to false / empty string / empty HTML / a nil pointer are truthy; rebinding: a name tested while unknown, then bound (loop variable / key, parameter, let and assignment, helper Set, BlockWith child, partial data), then unknown again - every test follows the current binding. names that are also names of built-in helpers bound by the user (to nil, false, \"\", 0, a string; by let and from Go) and names answered by a wrapped Go context, tested at top level, in function / loop / BlockWith-child / partial scopes and three scopes deep: the truth value of the binding everywhere. ill-formed chains (a second else, or an else if, after the else block): an error or the textually first truthy block, never a later part. Non-trivial: all cases.",
		Bound: func(th bool) string {
			return "matrix complete; chains with up to 3 else-if branches, 8 condition values, 6 placements, 2 block styles"
		},
	})
}

func c07Run(t *engine.T, shard string) {
	parts := strings.Split(shard, ":")
	if parts[0] == "matrix" {
		for _, s := range c07Subjects() {
			for _, cx := range c07Contexts {
				if s.noIf && strings.Contains(cx.pre, "if (") {
					continue
				}
				src := c04Prelude + cx.pre + s.src + cx.post
				want := cx.no
				if s.truthy {
					want = cx.yes
				}
				t.Case("truth "+cx.name+" "+s.src+" "+q(src), true, func() (string, *engine.Fail) {
					var log []int
					out, err := Render(src, c07Context(&log))
					if err != nil {
						return "", engine.Failf("mismatch", "expected %q (subject truthy=%v), got error %v", want, s.truthy, err)
					}
					if out != want {
						return "", engine.Failf("mismatch", "expected %q (subject truthy=%v), got %q", want, s.truthy, out)
					}
					return fmt.Sprintf("truthy=%v", s.truthy), nil
				})
			}
		}
		// a name's truth value follows its current binding: unknown -> bound (loop variable, parameter, let, helper Set) -> unknown again
		rebind := []struct{ name, src, want string }{
			{"loop variable", `<%= if (v9) { %>T<% } else { %>F<% } %><%= !v9 %>|<%= for (v9) in one { %><%= if (v9) { %>T<% } else { %>F<% } %><%= !v9 %><%= v9 && true %><%= v9 || false %><% } %>|<%= if (v9) { %>T<% } else { %>F<% } %><%= !v9 %>`, "Ftrue|Tfalsetruetrue|Ftrue"},
			{"loop key", `<%= !k9 %>|<%= for (k9, v) in two { %><%= if (k9 == 1 && k9) { %>T<% } else if (k9) { %>t<% } else { %>F<% } %><% } %>|<%= !k9 %>`, "true|tT|true"},
			{"parameter", `<%= !a9 %><%= a9 || false %>|<% let f = fn(a9) { if (a9) { return "T" } else if (!a9) { return "F" } return "?" } %><%= f(1) %><%= f(false) %><%= f("") %><%= f("x") %>|<%= !a9 %>`, "truefalse|TFFT|true"},
			{"let", `<%= if (z9) { %>T<% } else { %>F<% } %><% let z9 = 1 %><%= if (z9) { %>T<% } else { %>F<% } %><%= !z9 %><% z9 = false %><%= if (z9) { %>T<% } else if (!z9) { %>t<% } %>`, "FTfalset"},
			{"helper Set", `<%= if (hs9) { %>T<% } else { %>F<% } %><% seths() %><%= if (hs9) { %>T<% } else { %>F<% } %><%= !hs9 %><%= hs9 && true %>`, "FTfalsetrue"},
			{"block scope", `<%= !b9 %><%= withb() { %><%= if (b9) { %>T<% } else { %>F<% } %><%= !b9 %><% } %><%= !b9 %>`, "true{Tfalse}true"},
			{"partial data", `<%= !p9 %><%= partial("pp9", {"p9": 1}) %><%= !p9 %>`, "true[Tfalse]true"},
			{"nested loops re-using the name", `<%= for (v9) in two { %><%= for (w) in one { %><%= if (v9) { %>T<% } %><% } %><% } %><%= !v9 %><%= for (v9) in one { %><%= !v9 %><% } %>`, "TTtruefalse"},
		}
		rebind = append(rebind,
			struct{ name, src, want string }{"stateful condition repeated in a chain", `<%= if (pop()) { %>A<% } else if (pop()) { %>B<% } else if (pop()) { %>C<% } else { %>D<% } %>|<%= pops() %>`, "B|2"},
			struct{ name, src, want string }{"stateful condition repeated, none true", `<%= if (popf()) { %>A<% } else if (popf()) { %>B<% } else if (popf()) { %>C<% } else { %>D<% } %>|<%= pops() %>`, "D|3"},
			struct{ name, src, want string }{"same condition text, third true", `<%= if (pop3()) { %>A<% } else if (pop3()) { %>B<% } else if (pop3()) { %>C<% } %>|<%= pops() %>`, "C|3"},
		)
		for _, c := range rebind {
			c := c
			t.Case("rebinding "+c.name+" "+q(c.src), true, func() (string, *engine.Fail) {
				var log []int
				ctx := c07Context(&log)
				ctx.Set("seths", func(help plush.HelperContext) string { help.Set("hs9", 1); return "" })
				calls := 0
				ctx.Set("pop", func() bool { calls++; return calls == 2 })
				ctx.Set("popf", func() bool { calls++; return false })
				ctx.Set("pop3", func() bool { calls++; return calls == 3 })
				ctx.Set("pops", func() int { return calls })
				ctx.Set("withb", func(help plush.HelperContext) (template.HTML, error) {
					ch := help.New()
					ch.Set("b9", "B")
					s, err := help.BlockWith(ch)
					return template.HTML("{" + s + "}"), err
				})
				ctx.Set("partialFeeder", func(name string) (string, error) {
					return `[<%= if (p9) { %>T<% } else { %>F<% } %><%= !p9 %>]`, nil
				})
				out, err := Render(c.src, ctx)
				if err != nil || out != c.want {
					return "", engine.Failf("mismatch", "expected %q, got %q / %v", c.want, out, err)
				}
				return "rebinding", nil
			})
		}
		// shadowing: a name bound in an inner scope (loop variable, parameter, partial / contentOf data, a helper's
		// child context) to each of a few values - nil among them - while an outer scope binds the same name to
		// something of the opposite truth value: every context reports the truth value of the inner binding
		shVals := []interface{}{nil, false, "", 0, "x", (*Person)(nil), map[string]int(nil), template.HTML(""), true}
		for oi, outer := range []string{`<% let s9 = "outer" %>`, `<% let s9 = false %>`, ``, `<% let s9 = nil %>`} {
			for vi, v := range shVals {
				for _, cx := range c07Contexts {
					for _, bind := range []struct{ name, pre, post string }{
						{"loop variable", `<%= for (s9) in pick(` + fmt.Sprint(vi) + `) { %>`, `<% } %>`},
						{"loop value with key", `<%= for (k9, s9) in pick(` + fmt.Sprint(vi) + `) { %>`, `<% } %>`},
						{"parameter", `<% let f9 = fn(s9) { %>`, `<% } %><%= f9(shv[` + fmt.Sprint(vi) + `]) %>`},
						{"partial data", `<%= partial("sh9", {"s9": shv[` + fmt.Sprint(vi) + `]}) %>`, ``},
						{"contentOf data", `<% contentFor("cs9") { %>`, `<% } %><%= contentOf("cs9", {"s9": shv[` + fmt.Sprint(vi) + `]}) %>`},
						{"helper child context", `<%= withs(shv[` + fmt.Sprint(vi) + `]) { %>`, `<% } %>`},
					} {
						inner := cx.pre + "s9" + cx.post
						src := outer + bind.pre + inner + bind.post
						if bind.name == "partial data" {
							src = outer + bind.pre
						}
						want := cx.no
						if c07Truthy(v) {
							want = cx.yes
						}
						t.Case(fmt.Sprintf("shadowing outer=%d value=%d %s %s %s", oi, vi, bind.name, cx.name, q(src)), true, func() (string, *engine.Fail) {
							var log []int
							ctx := c07Context(&log)
							ctx.Set("shv", shVals)
							ctx.Set("pick", func(i int) []interface{} { return []interface{}{shVals[i]} })
							ctx.Set("withs", func(v interface{}, help plush.HelperContext) (template.HTML, error) {
								ch := help.New()
								ch.Set("s9", v)
								s, err := help.BlockWith(ch)
								return template.HTML(s), err
							})
							ctx.Set("partialFeeder", func(name string) (string, error) { return inner, nil })
							out, err := Render(src, ctx)
							if err != nil || out != want {
								return "", engine.Failf("mismatch", "inner binding %#v (truthy=%v): expected %q, got %q / %v", v, c07Truthy(v), want, out, err)
							}
							return fmt.Sprintf("truthy=%v", c07Truthy(v)), nil
						})
					}
				}
			}
		}
		// names that are also names of built-in helpers, bound by the user (to nil and other values, by let and from Go),
		// and names answered by a wrapped Go context: the same truth value at top level and in every nested scope
		type nv struct {
			name  string
			v     interface{}
			viaGo bool // carried by the Go context the root wraps
		}
		nvs := []nv{{"len", nil, false}, {"raw", nil, false}, {"truncate", false, false}, {"len", "", false}, {"raw", 0, false}, {"len", "x", false}, {"gv", "bob", true}, {"gv", 0, true}, {"gv", "", true}, {"gv", false, true}, {"gv", []int{}, true}, {"len", "mine", true}}
		for ni, x := range nvs {
			for _, how := range []string{"set", "let"} {
				if how == "let" && (x.viaGo || x.v != nil && x.v != false && x.v != "" && x.v != 0 && x.v != "x") {
					continue
				}
				for _, cx := range c07Contexts {
					for _, nest := range []struct{ name, pre, post, open, close string }{
						{"top", "", "", "", ""}, {"fn body", `<% let f9 = fn() { %>`, `<% } %><%= f9() %>`, "", ""}, {"for body", `<%= for (i9) in one { %>`, `<% } %>`, "", ""},
						{"BlockWith child", `<%= withn() { %>`, `<% } %>`, "", ""}, {"fn in for in BlockWith child", `<%= withn() { %><%= for (i9) in one { %><% let f9 = fn() { %>`, `<% } %><%= f9() %><% } %><% } %>`, "", ""},
						{"partial", "", "", "", ""},
					} {
						x, how, cx, nest := x, how, cx, nest
						inner := cx.pre + x.name + cx.post
						pre := ""
						if how == "let" {
							pre = `<% let ` + x.name + ` = ` + map[interface{}]string{nil: "nil", false: "false", "": `""`, 0: "0", "x": `"x"`}[x.v] + ` %>`
						}
						src := pre + nest.pre + inner + nest.post
						if nest.name == "partial" {
							src = pre + `<%= partial("pn9") %>`
						}
						truthy := c07Truthy(x.v)
						if x.viaGo && x.name == "len" {
							truthy = true // the built-in is injected under a name the context's own data does not bind
						}
						want := cx.no
						if truthy {
							want = cx.yes
						}
						t.Case(fmt.Sprintf("helper-or-wrapped name #%d %s=%#v via %s in %s %s %s", ni, x.name, x.v, how, nest.name, cx.name, q(src)), true, func() (string, *engine.Fail) {
							var log []int
							base := c07Context(&log)
							ctx := base
							if x.viaGo {
								ctx = plush.NewContextWithContext(context.WithValue(context.Background(), x.name, x.v))
								for _, k := range []string{"one", "blk", "c"} {
									ctx.Set(k, base.Value(k))
								}
							} else if how == "set" {
								ctx.Set(x.name, x.v)
							}
							ctx.Set("withn", func(help plush.HelperContext) (template.HTML, error) {
								s, err := help.BlockWith(help.New())
								return template.HTML(s), err
							})
							ctx.Set("partialFeeder", func(name string) (string, error) { return inner, nil })
							out, err := Render(src, ctx)
							if err != nil || out != want {
								return "", engine.Failf("mismatch", "%s is %#v (truthy=%v): expected %q, got %q / %v", x.name, x.v, truthy, want, out, err)
							}
							return fmt.Sprintf("truthy=%v", truthy), nil
						})
					}
				}
			}
		}
		// ill-formed chains: nothing may follow the else block. Rendering them must not pick a block out of
		// textual order (an error, or the first truthy block in textual order, are both fine).
		for _, c1 := range []string{"true", "false"} {
			for _, c2 := range []string{"true", "false"} {
				for _, tail := range []string{` else if (` + c2 + `) { %>B<% }`, ` else { %>E2<% }`, ` else { %>E2<% } else if (` + c2 + `) { %>B<% }`} {
					src := `<%= if (` + c1 + `) { %>A<% } else { %>E<% }` + tail + ` %>`
					want := "E"
					if c1 == "true" {
						want = "A"
					}
					t.Case("ill-formed chain "+q(src), true, func() (string, *engine.Fail) {
						var log []int
						out, err := Render(src, c07Context(&log))
						if err != nil {
							return "rejected", nil
						}
						if out != want {
							return "", engine.Failf("mismatch", "a part written after the else block was chosen: expected an error or %q, got %q", want, out)
						}
						return "textual-order", nil
					})
				}
			}
		}
		return
	}
	var k int
	fmt.Sscan(parts[1], &k)
	hasElse := parts[2] == "else"
	ret := parts[3] == "return"
	sparse := parts[3] == "sparse" // every second block is empty: an empty block still ends the chain
	nc := k + 1
	total := 1
	for i := 0; i < nc; i++ {
		total *= len(c07CondVals)
	}
	placements := []struct{ name, pre, post, opre, opost string }{
		{"top", "", "", "", ""},
		{"for", `<%= for (v) in one { %>`, `<% } %>`, "", ""},
		{"fn", `<% let g = fn() { %>`, `<% } %><%= g() %>`, "", ""},
		{"block", `<%= blk() { %>`, `<% } %>`, "{", "}"},
		{"for-twice", `<%= for (v) in two { %>`, `<% } %>`, "", ""},
		{"fn-called-twice", `<% let g2 = fn() { %>`, `<% } %><%= g2() %><%= g2() %>`, "", ""},
	}
	for a := 0; a < total; a++ {
		vals := make([]int, nc)
		x := a
		for i := 0; i < nc; i++ {
			vals[i] = x % len(c07CondVals)
			x /= len(c07CondVals)
		}
		var sb strings.Builder
		blockOf := func(name string) string {
			if sparse && (name == "B1" || name == "B3" || name == "E") {
				return ` `
			}
			if ret {
				return ` return "` + name + `" `
			}
			return ` %>` + name + `<% `
		}
		cond := func(i int) string {
			cv := c07CondVals[vals[i]]
			if cv.bare {
				return cv.src
			}
			return fmt.Sprintf("c(%d, %s)", i, cv.src)
		}
		sb.WriteString(`<%= if (` + cond(0) + `) {` + blockOf("B0") + `}`)
		for i := 1; i < nc; i++ {
			sb.WriteString(fmt.Sprintf(` else if (%s) {%s}`, cond(i), blockOf(fmt.Sprintf("B%d", i))))
		}
		if hasElse {
			sb.WriteString(` else {` + blockOf("E") + `}`)
		}
		sb.WriteString(` %>`)
		first := -1
		for i := 0; i < nc; i++ {
			if c07CondVals[vals[i]].truthy {
				first = i
				break
			}
		}
		want := ""
		upto := nc
		if first >= 0 {
			want = fmt.Sprintf("B%d", first)
			upto = first + 1
		} else if hasElse {
			want = "E"
		}
		if sparse && (want == "B1" || want == "B3" || want == "E") {
			want = ""
		}
		var wantLog []int // counted conditions among 0..first
		for i := 0; i < upto; i++ {
			if !c07CondVals[vals[i]].bare {
				wantLog = append(wantLog, i)
			}
		}
		for _, pl := range placements {
			src := "<" + pl.pre + sb.String() + pl.post + ">"
			expect := "<" + pl.opre + want + pl.opost + ">"
			wantLog := wantLog
			if pl.name == "for-twice" || pl.name == "fn-called-twice" {
				// the same chain node is evaluated twice: both passes must behave identically
				expect = "<" + want + want + ">"
				wantLog = append(append([]int{}, wantLog...), wantLog...)
			}
			t.Case("chain "+pl.name+" "+q(src), true, func() (string, *engine.Fail) {
				var log []int
				out, err := Render(src, c07Context(&log))
				if err != nil {
					return "", engine.Failf("mismatch", "expected %q, got error %v", expect, err)
				}
				if out != expect {
					return "", engine.Failf("mismatch", "expected %q, got %q", expect, out)
				}
				if fmt.Sprint(log) != fmt.Sprint(wantLog) {
					return "", engine.Failf("conditions", "counted conditions evaluated %v, expected exactly %v once each in order", log, wantLog)
				}
				return fmt.Sprintf("first=%d", first), nil
			})
		}
	}
}
