package props

import (
	"fmt"
	"html/template"
	"strings"
	"time"

	"verifmc/engine"

	plush "github.com/gobuffalo/plush/v5"
)

// C01 — string data is always HTML-escaped on output; only trusted HTML is verbatim.

type c01Atom struct {
	kind string // plain | trusted | lit
	s    string
}

// c01Val: what an expression denotes for the output sink.
type c01Val struct {
	atoms  []c01Atom // one atom for scalars, several for arrays
	plain  bool      // a single plain Go string (can be concatenated / passed to string params)
	scalar bool      // a single value (not a slice)
}

func c01Plain(s string) c01Val   { return c01Val{[]c01Atom{{"plain", s}}, true, true} }
func c01Trusted(s string) c01Val { return c01Val{[]c01Atom{{"trusted", s}}, false, true} }

type c01Expr struct {
	name string
	src  string
	val  c01Val
}

type c01Stringish struct{ F string }
type c01WithHTML struct {
	H template.HTML
	R c01HTMLer
}
type c01HTMLerStringer struct{ s string }

func (h c01HTMLerStringer) HTML() template.HTML { return template.HTML(h.s) }
func (h c01HTMLerStringer) String() string      { return "String():" + h.s }

type c01HTMLer struct{ s string }

// c01Slug is a named string type without methods: if it is printed at all, it is printed escaped
type c01Slug string

// c01Stringer is an ordinary value whose printed form is a Go string: not trusted
type c01Stringer struct{ s string }

func (v c01Stringer) String() string { return v.s }

func (h c01HTMLer) HTML() template.HTML { return template.HTML(h.s) }

type c01Env struct {
	p        string
	partials map[string]string
	n        int
}

func (e *c01Env) context() *plush.Context {
	p := e.p
	c := plush.NewContext()
	c.Set("pv", p)
	c.Set("ps", c01Stringish{p})
	c.Set("pps", &c01Stringish{p})
	c.Set("pm", map[string]string{"k": p})
	c.Set("pmi", map[string]interface{}{"k": p})
	c.Set("psl", []string{p})
	c.Set("pil", []interface{}{p})
	c.Set("pnl", [][]string{{p}})
	c.Set("gs", func() string { return p })
	c.Set("gi", func() interface{} { return p })
	c.Set("ph", template.HTML(p))
	c.Set("phr", c01HTMLer{p})
	c.Set("gh", func() template.HTML { return template.HTML(p) })
	c.Set("phs", c01WithHTML{template.HTML(p), c01HTMLer{p}})
	c.Set("pphs", &c01WithHTML{template.HTML(p), c01HTMLer{p}})
	c.Set("phsl", []template.HTML{template.HTML(p)})
	c.Set("phil", []interface{}{template.HTML(p)})
	c.Set("phm", map[string]template.HTML{"k": template.HTML(p)})
	c.Set("pmix", []interface{}{template.HTML(p), p})
	c.Set("phrs", c01HTMLerStringer{p})
	c.Set("pstr", c01Stringer{p})
	c.Set("pslug", c01Slug(p))
	c.Set("pslugs", []c01Slug{c01Slug(p)})
	c.Set("pslugst", struct{ S c01Slug }{c01Slug(p)})
	c.Set("ppstr", &c01Stringer{p})
	c.Set("id", func(s string) string { return s })
	c.Set("idi", func(v interface{}) interface{} { return v })
	c.Set("one", []int{1})
	c.Set("i0", 0)
	c.Set("blk", func(help plush.HelperContext) (template.HTML, error) {
		s, err := help.Block()
		return template.HTML("{" + s + "}"), err
	})
	c.Set("bwith", func(help plush.HelperContext) (template.HTML, error) {
		s, err := help.BlockWith(help.New())
		return template.HTML("(" + s + ")"), err
	})
	c.Set("partialFeeder", func(name string) (string, error) {
		if s, ok := e.partials[name]; ok {
			return s, nil
		}
		return "", fmt.Errorf("no partial %q", name)
	})
	return c
}

func (e *c01Env) partial(body string) string {
	e.n++
	name := fmt.Sprintf("dyn%d", e.n)
	e.partials[name] = body
	return name
}

const c01Prelude = `<% let uf = fn(a) { return a } %><% let ufp = fn() { return pv } %><% let uft = fn(a) { %><i>pre</i><% return a } %>`

func c01Sources(p string) []c01Expr {
	s := []c01Expr{
		{"var", "pv", c01Plain(p)},
		{"struct-field", "ps.F", c01Plain(p)},
		{"ptr-struct-field", "pps.F", c01Plain(p)},
		{"map-value", `pm["k"]`, c01Plain(p)},
		{"map-iface-value", `pmi["k"]`, c01Plain(p)},
		{"[]string-elem", "psl[0]", c01Plain(p)},
		{"[]string-elem-var-index", "psl[i0]", c01Plain(p)},
		{"[]interface-elem", "pil[0]", c01Plain(p)},
		{"nested-slice-elem", "pnl[0][0]", c01Plain(p)},
		{"[]string-whole", "psl", c01Val{[]c01Atom{{"plain", p}}, false, false}},
		{"[]interface-whole", "pil", c01Val{[]c01Atom{{"plain", p}}, false, false}},
		{"go-helper-string", "gs()", c01Plain(p)},
		{"go-helper-interface", "gi()", c01Plain(p)},
		{"user-fn-result", "ufp()", c01Plain(p)},
		{"HTML-var", "ph", c01Trusted(p)},
		{"HTMLer", "phr", c01Val{[]c01Atom{{"trusted", p}}, false, false}}, // a struct: not concatenable
		{"raw()", "raw(pv)", c01Trusted(p)},
		{"go-helper-HTML", "gh()", c01Trusted(p)},
		{"HTML-struct-field", "phs.H", c01Trusted(p)},
		{"HTML-ptr-struct-field", "pphs.H", c01Trusted(p)},
		{"[]HTML-elem", "phsl[0]", c01Trusted(p)},
		{"[]interface-HTML-elem", "phil[0]", c01Trusted(p)},
		{"map-HTML-value", `phm["k"]`, c01Trusted(p)},
		{"[]HTML-whole", "phsl", c01Val{[]c01Atom{{"trusted", p}}, false, false}},
		{"HTMLer-struct-field", "phs.R", c01Val{[]c01Atom{{"trusted", p}}, false, false}},
		{"[]interface-mixed-whole", "pmix", c01Val{[]c01Atom{{"trusted", p}, {"plain", p}}, false, false}},
		{"HTMLer-that-is-also-a-Stringer", "phrs", c01Val{[]c01Atom{{"trusted", p}}, false, false}},
		{"Stringer", "pstr", c01Val{[]c01Atom{{"plain", p}}, false, false}},
		{"pointer-to-Stringer", "ppstr", c01Val{[]c01Atom{{"plain", p}}, false, false}},
		{"named-string-type", "pslug", c01Val{[]c01Atom{{"optplain", p}}, false, false}},
		{"slice-of-named-strings", "pslugs", c01Val{[]c01Atom{{"optplain", p}}, false, false}},
		{"named-string-struct-field", "pslugst.S", c01Val{[]c01Atom{{"optplain", p}}, false, false}},
		{"debug-of-string", "debug(pv)", c01Val{[]c01Atom{{"trusted", "<pre>"}, {"plain", p}, {"trusted", "</pre>"}}, false, false}},
		{"debug-of-array-literal", "debug([pv])", c01Val{[]c01Atom{{"trusted", "<pre>"}, {"plain", "[" + p + "]"}, {"trusted", "</pre>"}}, false, false}},
		{"debug-of-go-slice", "debug(psl)", c01Val{[]c01Atom{{"trusted", "<pre>"}, {"plain", "[" + p + "]"}, {"trusted", "</pre>"}}, false, false}},
		{"debug-of-hash-literal", `debug({"k": pv})`, c01Val{[]c01Atom{{"trusted", "<pre>"}, {"plain", "map[k:" + p + "]"}, {"trusted", "</pre>"}}, false, false}},
		{"debug-of-struct", "debug(ps)", c01Val{[]c01Atom{{"trusted", "<pre>"}, {"plain", "{F:" + p + "}"}, {"trusted", "</pre>"}}, false, false}},
	}
	if !strings.ContainsAny(p, "\"\\") && p != "" {
		s = append(s, c01Expr{"literal", `"` + p + `"`, c01Plain(p)})
	}
	if !strings.Contains(p, "`") && p != "" {
		s = append(s, c01Expr{"raw-literal", "`" + p + "`", c01Plain(p)})
	}
	return s
}

func c01Text(v c01Val) string {
	var sb strings.Builder
	for _, a := range v.atoms {
		sb.WriteString(a.s)
	}
	return sb.String()
}

type c01Route struct {
	name  string
	apply func(x c01Expr) (c01Expr, bool)
}

var c01Routes = []c01Route{
	{`""+x`, func(x c01Expr) (c01Expr, bool) {
		if !x.val.scalar {
			return x, false
		}
		return c01Expr{"", `("" + ` + x.src + `)`, c01Plain(c01Text(x.val))}, true
	}},
	{`x+""`, func(x c01Expr) (c01Expr, bool) {
		if !x.val.plain {
			return x, false
		}
		return c01Expr{"", `(` + x.src + ` + "")`, c01Plain(c01Text(x.val))}, true
	}},
	{`x+x`, func(x c01Expr) (c01Expr, bool) {
		if !x.val.plain {
			return x, false
		}
		return c01Expr{"", `(` + x.src + ` + ` + x.src + `)`, c01Plain(c01Text(x.val) + c01Text(x.val))}, true
	}},
	{`x+raw("<i>")`, func(x c01Expr) (c01Expr, bool) {
		if !x.val.plain {
			return x, false
		}
		return c01Expr{"", `(` + x.src + ` + raw("<i>"))`, c01Plain(c01Text(x.val) + "<i>")}, true
	}},
	{`[x][0]`, func(x c01Expr) (c01Expr, bool) {
		return c01Expr{"", `[` + x.src + `][0]`, x.val}, true
	}},
	{`[x,x]`, func(x c01Expr) (c01Expr, bool) {
		return c01Expr{"", `[` + x.src + `, ` + x.src + `]`, c01Val{append(append([]c01Atom{}, x.val.atoms...), x.val.atoms...), false, false}}, true
	}},
	{`[raw(),x]`, func(x c01Expr) (c01Expr, bool) {
		return c01Expr{"", `[raw("<b>"), ` + x.src + `, raw("</b>")]`, c01Val{append(append([]c01Atom{{"trusted", "<b>"}}, x.val.atoms...), c01Atom{"trusted", "</b>"}), false, false}}, true
	}},
	{`{"k":x}["k"]`, func(x c01Expr) (c01Expr, bool) {
		return c01Expr{"", `{"k": ` + x.src + `}["k"]`, x.val}, true
	}},
	{`idi(x)`, func(x c01Expr) (c01Expr, bool) {
		return c01Expr{"", `idi(` + x.src + `)`, x.val}, true
	}},
	{`id(x)`, func(x c01Expr) (c01Expr, bool) {
		if !x.val.plain {
			return x, false
		}
		return c01Expr{"", `id(` + x.src + `)`, x.val}, true
	}},
	{`uf(x)`, func(x c01Expr) (c01Expr, bool) {
		return c01Expr{"", `uf(` + x.src + `)`, x.val}, true
	}},
	{`uft(x)`, func(x c01Expr) (c01Expr, bool) {
		// a function whose body has literal text before its return: the text is markup, the returned value keeps its own kind
		return c01Expr{"", `uft(` + x.src + `)`, c01Val{append([]c01Atom{{"lit", "<i>pre</i>"}}, x.val.atoms...), false, false}}, true
	}},
}

type c01Emit struct {
	name string
	mk   func(e *c01Env, x c01Expr) string
}

var c01Emits = []c01Emit{
	{"output-tag", func(e *c01Env, x c01Expr) string { return `<%= ` + x.src + ` %>` }},
	{"if-return", func(e *c01Env, x c01Expr) string { return `<%= if (true) { return ` + x.src + ` } %>` }},
	{"for-return", func(e *c01Env, x c01Expr) string { return `<%= for (q) in one { return ` + x.src + ` } %>` }},
	{"fn-return", func(e *c01Env, x c01Expr) string {
		return `<% let g9 = fn() { return ` + x.src + ` } %><%= g9() %>`
	}},
	{"let-then-emit", func(e *c01Env, x c01Expr) string { return `<% let z9 = ` + x.src + ` %><%= z9 %>` }},
	{"loop-variable", func(e *c01Env, x c01Expr) string {
		return `<%= for (lv) in [` + x.src + `] { %><%= lv %><% } %>`
	}},
	{"partial-data", func(e *c01Env, x c01Expr) string {
		return `<%= partial("` + e.partial(`<%= d %>`) + `", {"d": ` + x.src + `}) %>`
	}},
	{"partial-data-under-the-key-yield", func(e *c01Env, x c01Expr) string {
		return `<%= partial("` + e.partial(`<%= yield %>`) + `", {"yield": ` + x.src + `}) %>`
	}},
	{"contentOf-data", func(e *c01Env, x c01Expr) string {
		return `<% contentFor("cfd") { %><%= d %><% } %><%= contentOf("cfd", {"d": ` + x.src + `}) %>`
	}},
	{"go-helper-called-with-a-block", func(e *c01Env, x c01Expr) string {
		return `<%= idi(` + x.src + `) { %>ignored <b><% } %>`
	}},
	{"fn-argument-emitted-inside", func(e *c01Env, x c01Expr) string {
		return `<% let g8 = fn(a) { %>[<%= a %>]<% } %><%= g8(` + x.src + `) %>`
	}},
}

type c01Wrap struct {
	name     string
	wrap     func(e *c01Env, inner string) string
	pre, suf string // literal frame contributed to the output
}

var c01Wraps = []c01Wrap{
	{"top", func(e *c01Env, in string) string { return in }, "", ""},
	{"if", func(e *c01Env, in string) string { return `<%= if (true) { %>` + in + `<% } %>` }, "", ""},
	{"else", func(e *c01Env, in string) string { return `<%= if (false) { %>n<% } else { %>` + in + `<% } %>` }, "", ""},
	{"for", func(e *c01Env, in string) string { return `<%= for (w) in one { %>` + in + `<% } %>` }, "", ""},
	{"fn-body", func(e *c01Env, in string) string { return `<% let ff = fn() { %>` + in + `<% } %><%= ff() %>` }, "", ""},
	{"helper-block", func(e *c01Env, in string) string { return `<%= blk() { %>` + in + `<% } %>` }, "{", "}"},
	{"helper-blockwith", func(e *c01Env, in string) string { return `<%= bwith() { %>` + in + `<% } %>` }, "(", ")"},
	{"for-helper-block-ending-in-break", func(e *c01Env, in string) string {
		return `<%= for (w) in one { %><%= blk() { %>` + in + `<% break %>never<% } %>never<% } %>`
	}, "{", "}"},
	{"for-helper-blockwith-ending-in-continue", func(e *c01Env, in string) string {
		return `<%= for (w) in one { %><%= bwith() { %>` + in + `<% if (true) { continue } %>never<% } %>never<% } %>`
	}, "(", ")"},
	{"contentFor", func(e *c01Env, in string) string {
		return `<% contentFor("cw") { %>` + in + `<% } %><%= contentOf("cw") %>`
	}, "", ""},
	{"contentFor-with-data", func(e *c01Env, in string) string {
		return `<% contentFor("cx") { %>` + in + `<% } %><%= contentOf("cx", {"unused": "<"}) %>`
	}, "", ""},
	{"contentOf-default", func(e *c01Env, in string) string { return `<%= contentOf("undefined-name") { %>` + in + `<% } %>` }, "", ""},
	{"partial", func(e *c01Env, in string) string { return `<%= partial("` + e.partial(in) + `") %>` }, "", ""},
	{"partial-layout", func(e *c01Env, in string) string {
		lay := e.partial(`L[<%= yield %>]`)
		return `<%= partial("` + e.partial(in) + `", {"layout": "` + lay + `"}) %>`
	}, "L[", "]"},
}

var c01Payloads = []string{`<>&'"`, `<`, `>`, `&`, `'`, `"`, `&amp;`, `é<世`, ``}

// c01Match walks the output along the expected atoms.
func c01Match(out string, atoms []c01Atom) *engine.Fail {
	pos := 0
	for ai, a := range atoms {
		switch a.kind {
		case "lit", "trusted":
			if !strings.HasPrefix(out[pos:], a.s) {
				what := "literal frame"
				if a.kind == "trusted" {
					what = "trusted HTML (must appear verbatim, exactly once)"
				}
				return engine.Failf("not-verbatim", "atom %d: %s %q not found at byte %d of output %q", ai, what, a.s, pos, out)
			}
			pos += len(a.s)
		case "optplain":
			// a value the sink may not print at all (a named string type): absent, or present like a plain string
			rest := atoms[ai+1:]
			f := c01Match(out[pos:], append([]c01Atom{{"plain", a.s}}, rest...))
			if f == nil || c01Match(out[pos:], rest) == nil {
				return nil
			}
			return f
		case "plain":
			for i := 0; i < len(a.s); i++ {
				want := a.s[i]
				if pos >= len(out) {
					return engine.Failf("dropped", "atom %d: output %q ends before plain string %q is complete", ai, out, a.s)
				}
				c := out[pos]
				if c == '&' {
					matched := false
					for _, ent := range []struct {
						e string
						b byte
					}{{"&lt;", '<'}, {"&gt;", '>'}, {"&amp;", '&'}, {"&#39;", '\''}, {"&apos;", '\''}, {"&#34;", '"'}, {"&quot;", '"'}} {
						if strings.HasPrefix(out[pos:], ent.e) {
							if ent.b != want {
								return engine.Failf("wrong-text", "atom %d: entity %s at byte %d, expected character %q of %q (output %q)", ai, ent.e, pos, want, a.s, out)
							}
							pos += len(ent.e)
							matched = true
							break
						}
					}
					if !matched {
						return engine.Failf("unescaped", "atom %d: raw '&' at byte %d of output %q while emitting the plain string %q", ai, pos, out, a.s)
					}
					continue
				}
				if c == '<' || c == '>' || c == '\'' || c == '"' {
					return engine.Failf("unescaped", "atom %d: raw %q at byte %d of output %q while emitting the plain string %q", ai, c, pos, out, a.s)
				}
				if c != want {
					return engine.Failf("wrong-text", "atom %d: byte %d of output %q is %q, expected %q of the plain string %q", ai, pos, out, c, want, a.s)
				}
				pos++
			}
		}
	}
	if pos != len(out) {
		return engine.Failf("extra-output", "output %q continues after the expected atoms (at byte %d): emitted more than once?", out, pos)
	}
	return nil
}

func init() {
	engine.Register(&engine.Prop{
		ID: "C01",
		Shards: func(th bool) []string {
			s := []string{"bytes", "short", "typed", "timeformat", "js"}
			for wi := range c01Wraps {
				for pi := range c01Payloads {
					s = append(s, fmt.Sprintf("routes:%d:%d", wi, pi))
				}
			}
			return s
		},
		Run:  c01Run,
		Rule: "payload x source x value-route^d x emit-form x wrapper^e. Sources (28): context string, struct / pointer-struct field, map[string]string and map[string]interface{} value, []string / []interface{} / nested slice element (literal and variable index), whole []string / []interface{}, Go helper returning string / interface{}, user-function result, double- and back-quoted literal, and the trusted ones: template.HTML variable, HTMLer, raw(x), helper returning template.HTML, template.HTML / HTMLer struct fields, []template.HTML and []interface{} elements, map[string]template.HTML value, mixed []interface{}, a value that is both HTMLer and fmt.Stringer; and a plain fmt.Stringer (by value and by pointer), whose text is a Go string and therefore escaped; values of a named string type (directly, in a slice, as a struct field: printed escaped or not at all); debug(x), whose pre tags are markup and whose printed argument is data. Value routes (12, incl. a template function with literal text before its return): \"\"+x, x+\"\", x+x, x+raw(), [x][0], [x,x], [raw(),x,raw()], {k:x}[k], Go identity helpers (string / interface{}), user function. Emit forms (11, incl. partial data under the key the layout mechanism uses, yield): output tag, return from if / for / fn, let then emit, loop variable, partial data, contentOf data, function argument emitted inside the body, Go helper result when the helper was called with a block. Wrappers (14, incl. a helper block inside a loop that ends with break / continue after the value): top, if, else, for, fn body, helper block via Block() / BlockWith(), contentFor->contentOf (with and without data), contentOf default block, partial, partial with layout. A reference evaluator over the route gives the expected atom list (plain | trusted | literal frame); the output is walked along it: a plain atom must appear with every < > & ' \" as an entity (any spelling) and every other byte unchanged, a trusted atom byte-identical, nothing dropped, nothing emitted twice. (js) every single-value source as data of a .html partial rendered under a JavaScript content type: JSEscape of the HTML-escaped (plain) or verbatim (trusted) value. (timeformat) every payload as literal text of the context's TIME_FORMAT, a time printed in 5 ways. (typed) every scalar source and depth-1 route passed to Go helpers whose parameter (fixed, second, variadic) is typed template.HTML: plain strings are refused or stay escaped, trusted HTML passes verbatim. (bytes) every single byte 0x01..0xFF and (short) every string of length <=3 over {< > & ' \" a &amp; é 世 \\xff %> <%} through every source and the direct emit forms. Non-trivial: payload contains a special character and the route has depth >= 1.",
		Bound: func(th bool) string {
			if th {
				return "9 payloads x value routes d<=2 x 10 emit forms x wrappers e<=2"
			}
			return "9 payloads x value routes d<=1 x 11 emit forms x wrappers e<=2 (e<=1 for the five single-character payloads); payload <>&'\" additionally with value routes d<=2 x wrappers e<=1"
		},
	})
}

func c01Exprs(p string, depth int) []c01Expr {
	cur := c01Sources(p)
	for i := range cur {
		cur[i].name = "src=" + cur[i].name
	}
	all := append([]c01Expr{}, cur...)
	for d := 0; d < depth; d++ {
		var next []c01Expr
		for _, x := range cur {
			for _, r := range c01Routes {
				if y, ok := r.apply(x); ok {
					y.name = x.name + " > " + r.name
					next = append(next, y)
				}
			}
		}
		all = append(all, next...)
		cur = next
	}
	return all
}

func c01Case(t *engine.T, p string, x c01Expr, em c01Emit, wraps []int, nontrivial bool) {
	var wn []string
	for _, w := range wraps {
		wn = append(wn, c01Wraps[w].name)
	}
	for _, n := range wn {
		if strings.HasPrefix(n, "for-helper") && (em.name == "if-return" || em.name == "for-return") {
			return // a return ends the helper's block before its break / continue is reached
		}
	}
	desc := fmt.Sprintf("payload=%q %s emit=%s wrap=%s", p, x.name, em.name, strings.Join(wn, ">"))
	t.Case(desc, nontrivial, func() (string, *engine.Fail) {
		e := &c01Env{p: p, partials: map[string]string{}}
		inner := em.mk(e, x)
		var atoms []c01Atom
		if em.name == "fn-argument-emitted-inside" {
			atoms = append(atoms, c01Atom{"lit", "["})
			atoms = append(atoms, x.val.atoms...)
			atoms = append(atoms, c01Atom{"lit", "]"})
		} else {
			atoms = append(atoms, x.val.atoms...)
		}
		for i := len(wraps) - 1; i >= 0; i-- {
			w := c01Wraps[wraps[i]]
			inner = w.wrap(e, inner)
			atoms = append(append([]c01Atom{{"lit", w.pre}}, atoms...), c01Atom{"lit", w.suf})
		}
		src := c01Prelude + "A|" + inner + "|B"
		atoms = append(append([]c01Atom{{"lit", "A|"}}, atoms...), c01Atom{"lit", "|B"})
		out, err := Render(src, e.context())
		if err != nil {
			return "", engine.Failf("error", "unexpected error %v (template %q)", err, src)
		}
		if f := c01Match(out, atoms); f != nil {
			f.Msg += " (template " + q(src) + ")"
			return "", f
		}
		trusted := false
		for _, a := range x.val.atoms {
			if a.kind == "trusted" {
				trusted = true
			}
		}
		if trusted {
			return "trusted-verbatim", nil
		}
		return "escaped", nil
	})
}

func c01Run(t *engine.T, shard string) {
	parts := strings.Split(shard, ":")
	switch parts[0] {
	case "bytes":
		for b := 1; b <= 255; b++ {
			p := string([]byte{byte(b)})
			for _, x := range c01Exprs(p, 0) {
				for _, em := range c01Emits[:3] {
					c01Case(t, p, x, em, []int{0}, strings.ContainsAny(p, `<>&'"`))
				}
			}
		}
	case "short":
		sigma := []string{"<", ">", "&", "'", `"`, "a", "&amp;", "é", "世", "\xff", "%>", "<%"}
		c02Strings(3, sigma, func(p string) {
			for _, x := range c01Exprs(p, 0) {
				c01Case(t, p, x, c01Emits[0], []int{0}, strings.ContainsAny(p, `<>&'"`))
			}
		})
	case "typed":
		// a Go helper whose parameter is typed template.HTML: a plain string must not become trusted by being
		// passed to it (the call is refused, or the text stays escaped); trusted HTML passes verbatim
		for _, p := range c01Payloads {
			special := strings.ContainsAny(p, `<>&'"`)
			for _, x := range c01Exprs(p, 1) {
				if !x.val.scalar {
					continue
				}
				x := x
				for _, call := range []string{`hp(` + x.src + `)`, `hp2("k", ` + x.src + `)`, `hpv(` + x.src + `)`, `hpv(` + x.src + `, ` + x.src + `)`} {
					src := c01Prelude + "A|<%= " + call + " %>|B"
					t.Case(fmt.Sprintf("typed-param payload=%q %s %s", p, x.name, q(src)), special, func() (string, *engine.Fail) {
						e := &c01Env{p: p, partials: map[string]string{}}
						c := e.context()
						c.Set("hp", func(h template.HTML) template.HTML { return h })
						c.Set("hp2", func(k string, h template.HTML) template.HTML { return h })
						c.Set("hpv", func(hs ...template.HTML) template.HTML { return hs[len(hs)-1] })
						out, err := Render(src, c)
						if err != nil {
							if x.val.plain {
								return "refused", nil
							}
							return "", engine.Failf("error", "trusted HTML refused by a template.HTML parameter: %v", err)
						}
						if f := c01Match(out, append(append([]c01Atom{{"lit", "A|"}}, x.val.atoms...), c01Atom{"lit", "|B"})); f != nil {
							f.Msg += " (template " + q(src) + ")"
							return "", f
						}
						return "passed", nil
					})
				}
				// containers typed template.HTML that come from Go: a plain string appended to / assigned into one does
				// not become trusted by being stored there (the operation is refused, or the text stays escaped)
				{
					tr := c01Atom{"trusted", "<b>T</b>"}
					for _, f := range []struct {
						src   string
						atoms []c01Atom
					}{
						{`<%= thl + ` + x.src + ` %>`, append([]c01Atom{tr}, x.val.atoms...)},
						{`<% let l9 = thl + ` + x.src + ` %><%= l9[1] %>`, x.val.atoms},
						{`<% let l9 = thl + ` + x.src + ` %><%= for (v9) in l9 { %><%= v9 %><% } %>`, append([]c01Atom{tr}, x.val.atoms...)},
						{`<% thl[0] = ` + x.src + ` %><%= thl %>`, x.val.atoms},
						{`<% thl[0] = ` + x.src + ` %><%= thl[0] %>`, x.val.atoms},
						{`<% tha[0] = ` + x.src + ` %><%= tha[0] %>`, x.val.atoms},
						{`<% thm["k"] = ` + x.src + ` %><%= thm["k"] %>`, x.val.atoms},
						{`<% thm["n"] = ` + x.src + ` %><%= thm["n"] %>`, x.val.atoms},
						{`<% thil[0] = ` + x.src + ` %><%= thil %>`, x.val.atoms},
						{`<%= thil + ` + x.src + ` %>`, append([]c01Atom{tr}, x.val.atoms...)},
						// two lists built from one base list (a literal of three elements has room for a fourth): each keeps its own last element
						{`<% let b3 = ["a", "b", "c"] %><% let s1 = b3 + ` + x.src + ` %><% let s2 = b3 + raw("<b>T</b>") %><%= s1 %>`, append([]c01Atom{{"lit", "abc"}}, x.val.atoms...)},
						{`<% let b3 = ["a", "b", "c"] %><% let s2 = b3 + raw("<b>T</b>") %><% let s1 = b3 + ` + x.src + ` %><%= s2 %>|<%= s1 %>`, append([]c01Atom{{"lit", "abc"}, tr, {"lit", "|abc"}}, x.val.atoms...)},
						{`<% let b5 = [1, 2, 3, 4, 5] %><% let s1 = b5 + ` + x.src + ` %><% let s2 = b5 + raw("<b>T</b>") %><% let s3 = b5 + "<i>" %><%= s1 %>|<%= s2 %>`, append(append([]c01Atom{{"lit", "12345"}}, x.val.atoms...), c01Atom{"lit", "|12345"}, tr)},
						{`<% let b3 = psl + "b" + "c" %><% let s1 = b3 + ` + x.src + ` %><% let s2 = b3 + "<u>" %><%= s1[3] %>`, x.val.atoms},
					} {
						f := f
						src := c01Prelude + "A|" + f.src + "|B"
						t.Case(fmt.Sprintf("typed-container payload=%q %s %s", p, x.name, q(src)), special, func() (string, *engine.Fail) {
							e := &c01Env{p: p, partials: map[string]string{}}
							c := e.context()
							c.Set("thl", []template.HTML{"<b>T</b>"})
							c.Set("tha", &[1]template.HTML{"<b>T</b>"})
							c.Set("thm", map[string]template.HTML{"k": "<b>T</b>"})
							c.Set("thil", []interface{}{template.HTML("<b>T</b>")})
							out, err := Render(src, c)
							if err != nil {
								return "refused", nil
							}
							if fl := c01Match(out, append(append([]c01Atom{{"lit", "A|"}}, f.atoms...), c01Atom{"lit", "|B"})); fl != nil {
								fl.Msg += " (template " + q(src) + ")"
								return "", fl
							}
							return "passed", nil
						})
					}
				}
			}
		}
	case "js":
		// a partial with a non-.js name rendered under a JavaScript content type is JS-escaped as a whole: what the
		// partial's output tags escaped stays escaped (entities are not decoded on the way), trusted HTML is only JS-escaped
		for _, p := range c01Payloads {
			for _, x := range c01Exprs(p, 0) {
				if len(x.val.atoms) != 1 || x.val.atoms[0].kind == "optplain" {
					continue
				}
				p, x := p, x
				t.Case(fmt.Sprintf("js-partial payload=%q %s", p, x.name), strings.ContainsAny(p, `<>&'"`), func() (string, *engine.Fail) {
					e := &c01Env{p: p, partials: map[string]string{}}
					c := e.context()
					c.Set("contentType", "application/javascript")
					e.partials["row.html"] = `[<%= d %>]`
					out, err := Render(c01Prelude+`A|<%= partial("row.html", {"d": `+x.src+`}) %>|B`, c)
					if err != nil {
						return "", engine.Failf("error", "unexpected error %v", err)
					}
					inner := p
					if x.val.atoms[0].kind == "plain" {
						inner = template.HTMLEscapeString(p)
					}
					want := "A|" + template.JSEscapeString("["+inner+"]") + "|B"
					// any spelling of the HTML entities is fine before JS-escaping: compare after normalising both
					norm := func(s string) string {
						for _, r := range [][2]string{{`\u0026#34;`, `\u0026quot;`}, {`\u0026#39;`, `\u0026apos;`}} {
							s = strings.Replace(s, r[1], r[0], -1)
						}
						return s
					}
					if norm(out) != norm(want) {
						return "", engine.Failf("unescaped", "expected %q, got %q", want, out)
					}
					return "js-escaped", nil
				})
			}
		}
	case "timeformat":
		// the layout a time is printed with comes from the context like any other string
		for _, p := range c01Payloads {
			p := p
			for _, form := range []string{`<%= tm %>`, `<%= [tm][0] %>`, `<%= if (true) { %><%= tm %><% } %>`, `<%= blk() { %><%= tm %><% } %>`, `<% let tf = fn() { return tm } %><%= tf() %>`} {
				form := form
				t.Case(fmt.Sprintf("timeformat payload=%q %s", p, q(form)), strings.ContainsAny(p, `<>&'"`), func() (string, *engine.Fail) {
					e := &c01Env{p: p, partials: map[string]string{}}
					c := e.context()
					c.Set("tm", time.Date(2021, 3, 4, 5, 6, 7, 0, time.UTC))
					c.Set("TIME_FORMAT", p+"|2006")
					out, err := Render("A|"+form+"|B", c)
					if err != nil {
						return "", engine.Failf("error", "unexpected error %v", err)
					}
					atoms := []c01Atom{{"lit", "A|"}}
					if strings.Contains(form, "blk()") {
						atoms = append(atoms, c01Atom{"lit", "{"})
					}
					atoms = append(atoms, c01Atom{"plain", p}, c01Atom{"lit", "|2021"})
					if strings.Contains(form, "blk()") {
						atoms = append(atoms, c01Atom{"lit", "}"})
					}
					atoms = append(atoms, c01Atom{"lit", "|B"})
					if f := c01Match(out, atoms); f != nil {
						return "", f
					}
					return "escaped", nil
				})
			}
		}
	case "routes":
		var wi, pi int
		fmt.Sscan(parts[1], &wi)
		fmt.Sscan(parts[2], &pi)
		p := c01Payloads[pi]
		special := strings.ContainsAny(p, `<>&'"`)
		depth := 1
		if t.Thorough || pi == 0 {
			depth = 2
		}
		exprs := c01Exprs(p, depth)
		for _, x := range exprs {
			d2 := strings.Count(x.name, " > ") >= 2
			for _, em := range c01Emits {
				c01Case(t, p, x, em, []int{wi}, special)
				if d2 && !t.Thorough {
					continue
				}
				if wi == 0 {
					continue // top > w2 is the same as w2 alone
				}
				if pi >= 1 && pi <= 5 && !t.Thorough {
					continue // single special characters: one wrapper level in the quick tier (the combined payload runs two)
				}
				for w2 := 1; w2 < len(c01Wraps); w2++ {
					c01Case(t, p, x, em, []int{wi, w2}, special)
				}
			}
		}
	}
}
