package props

import (
	"context"
	"fmt"
	"html/template"
	"strings"

	"verifmc/engine"

	plush "github.com/gobuffalo/plush/v5"
	"github.com/gobuffalo/plush/v5/vtick"
)

// C09 — names bound inside for/function/partial/contentOf scopes never leak or clobber.

type c09Scope struct {
	vars   map[string]string
	parent *c09Scope
}

func (s *c09Scope) lookup(n string) (string, bool) {
	for x := s; x != nil; x = x.parent {
		if v, ok := x.vars[n]; ok {
			return v, true
		}
	}
	return "", false
}

var c09Kinds = []string{"for", "fn", "partial", "cf", "cfd", "bw", "blk", "if", "forit", "formap", "bwc", "cf2", "pvar2", "cfar"}

type c09Level struct {
	kind   int
	subset int // bit0: let fresh, bit1: shadowing let o, bit2: assignment o = …
}

type c09Gen struct {
	levels   []c09Level
	names    []string
	partials map[string]string
	hoist    strings.Builder
	top      *c09Scope
}

func (g *c09Gen) probesSrc() string {
	var sb strings.Builder
	for _, n := range g.names {
		sb.WriteString(`<%= if (` + n + `) { %>[` + n + `=<%= ` + n + ` %>]<% } else { %>[` + n + `=∅]<% } %>`)
	}
	return sb.String()
}

func (g *c09Gen) probesExp(s *c09Scope) string {
	var sb strings.Builder
	for _, n := range g.names {
		if v, ok := s.lookup(n); ok {
			sb.WriteString("[" + n + "=" + v + "]")
		} else {
			sb.WriteString("[" + n + "=∅]")
		}
	}
	return sb.String()
}

func (g *c09Gen) actionsSrc(l int) string {
	sub := g.levels[l-1].subset
	var sb strings.Builder
	if sub&1 != 0 {
		sb.WriteString(fmt.Sprintf(`<%% let f%d = "F%d" %%>`, l, l))
	}
	if sub&2 != 0 {
		sb.WriteString(fmt.Sprintf(`<%% let o = "S%d" %%>`, l))
	}
	if sub&4 != 0 {
		sb.WriteString(fmt.Sprintf(`<%% o = "A%d" %%>`, l))
	}
	return sb.String()
}

func (g *c09Gen) actionsModel(l int, s *c09Scope) {
	sub := g.levels[l-1].subset
	if sub&1 != 0 {
		s.vars[fmt.Sprintf("f%d", l)] = fmt.Sprintf("F%d", l)
	}
	if sub&2 != 0 {
		s.vars["o"] = fmt.Sprintf("S%d", l)
	}
	if sub&4 != 0 {
		s.vars["o"] = fmt.Sprintf("A%d", l) // assignment binds in the current scope
	}
}

// body of level l executed in scope s: actions, nested construct, probes.
func (g *c09Gen) body(l int, s *c09Scope) (src, exp string) {
	src = g.actionsSrc(l)
	g.actionsModel(l, s)
	if l < len(g.levels) {
		cs, ce := g.construct(l+1, s)
		src += cs
		exp += ce
	}
	src += fmt.Sprintf("(%d:", l) + g.probesSrc() + ")"
	exp += fmt.Sprintf("(%d:", l) + g.probesExp(s) + ")"
	return
}

func (g *c09Gen) construct(l int, parent *c09Scope) (src, exp string) {
	kind := c09Kinds[g.levels[l-1].kind]
	child := &c09Scope{vars: map[string]string{}, parent: parent}
	d := fmt.Sprintf(`{"d%d": "D%d"}`, l, l)
	switch kind {
	case "for":
		child.vars[fmt.Sprintf("lv%d", l)] = "7"
		bs, be := g.body(l, child)
		return fmt.Sprintf(`<%%= for (lv%d) in one { %%>`, l) + bs + `<% } %>`, be
	case "forit", "formap":
		child.vars[fmt.Sprintf("lv%d", l)] = "7"
		bs, be := g.body(l, child)
		iter := "range(7, 7)"
		if kind == "formap" {
			iter = `{"k": 7}`
		}
		return fmt.Sprintf(`<%%= for (lv%d) in %s { %%>`, l, iter) + bs + `<% } %>`, be
	case "fn":
		child.vars[fmt.Sprintf("p%d", l)] = "P"
		bs, be := g.body(l, child)
		return fmt.Sprintf(`<%% let fn%d = fn(p%d) { %%>`, l, l) + bs + fmt.Sprintf(`<%% } %%><%%= fn%d("P") %%>`, l), be
	case "partial":
		child.vars[fmt.Sprintf("d%d", l)] = fmt.Sprintf("D%d", l)
		bs, be := g.body(l, child)
		name := fmt.Sprintf("part%d", l)
		g.partials[name] = bs
		return `<%= partial("` + name + `", ` + d + `) %>`, be
	case "cf":
		child.vars[fmt.Sprintf("d%d", l)] = fmt.Sprintf("D%d", l)
		bs, be := g.body(l, child)
		return fmt.Sprintf(`<%% contentFor("c%d") { %%>`, l) + bs + fmt.Sprintf(`<%% } %%><%%= contentOf("c%d", %s) %%>`, l, d), be
	case "cfd":
		child.vars[fmt.Sprintf("d%d", l)] = fmt.Sprintf("D%d", l)
		bs, be := g.body(l, child)
		return fmt.Sprintf(`<%%= contentOf("undef%d", %s) { %%>`, l, d) + bs + `<% } %>`, be
	case "bw":
		bs, be := g.body(l, child)
		return `<%= bwith() { %>` + bs + `<% } %>`, be
	case "bwc":
		// a helper that builds the scope for its block by wrapping its own context as a Go context
		bs, be := g.body(l, child)
		return `<%= bwctx() { %>` + bs + `<% } %>`, be
	case "blk":
		bs, be := g.body(l, parent) // Block(): same scope
		return `<%= blk() { %>` + bs + `<% } %>`, "{" + be + "}"
	case "if":
		bs, be := g.body(l, parent) // if: same scope
		return `<%= if (true) { %>` + bs + `<% } %>`, be
	case "pvar2":
		// one data map held in a variable and passed to two partial calls (innermost level only)
		first := &c09Scope{vars: map[string]string{fmt.Sprintf("d%d", l): fmt.Sprintf("D%d", l)}, parent: parent}
		second := &c09Scope{vars: map[string]string{fmt.Sprintf("d%d", l): fmt.Sprintf("D%d", l)}, parent: parent}
		bsrc := g.actionsSrc(l) + fmt.Sprintf("(pvar2-%d:", l) + g.probesSrc() + ")"
		na, nb := fmt.Sprintf("pva%d", l), fmt.Sprintf("pvb%d", l)
		g.partials[na] = bsrc
		g.partials[nb] = fmt.Sprintf("(pvar2b-%d:", l) + g.probesSrc() + ")"
		g.actionsModel(l, first)
		e1 := fmt.Sprintf("(pvar2-%d:", l) + g.probesExp(first) + ")"
		e2 := fmt.Sprintf("(pvar2b-%d:", l) + g.probesExp(second) + ")"
		// the variable holding the map lives in the enclosing scope
		parent.vars[fmt.Sprintf("dm%d", l)] = "" // (not probed)
		return fmt.Sprintf(`<%% let dm%d = %s %%><%%= partial("%s", dm%d) %%>|<%%= partial("%s", dm%d) %%>`, l, d, na, l, nb, l), e1 + "|" + e2
	case "cf2":
		// one stored block used twice: first with data, then without (innermost level only: no nested construct)
		first := &c09Scope{vars: map[string]string{fmt.Sprintf("d%d", l): fmt.Sprintf("D%d", l)}, parent: parent}
		second := &c09Scope{vars: map[string]string{}, parent: parent}
		bsrc := g.actionsSrc(l) + fmt.Sprintf("(cf2-%d:", l) + g.probesSrc() + ")"
		g.actionsModel(l, first)
		e1 := fmt.Sprintf("(cf2-%d:", l) + g.probesExp(first) + ")"
		g.actionsModel(l, second)
		e2 := fmt.Sprintf("(cf2-%d:", l) + g.probesExp(second) + ")"
		return fmt.Sprintf(`<%% contentFor("cc%d") { %%>`, l) + bsrc + fmt.Sprintf(`<%% } %%><%%= contentOf("cc%d", %s) %%>|<%%= contentOf("cc%d") %%>`, l, d, l), e1 + "|" + e2
	case "cfar":
		// block defined at top level (hoisted), used here: runs in a child of the TOP scope
		far := &c09Scope{vars: map[string]string{}, parent: g.top}
		far.vars[fmt.Sprintf("d%d", l)] = fmt.Sprintf("D%d", l)
		bsrc := g.actionsSrc(l) + fmt.Sprintf("(far%d:", l) + g.probesSrc() + ")"
		g.hoist.WriteString(fmt.Sprintf(`<%% contentFor("far%d") { %%>`, l) + bsrc + `<% } %>`)
		g.actionsModel(l, far)
		be := fmt.Sprintf("(far%d:", l) + g.probesExp(far) + ")"
		return fmt.Sprintf(`<%%= contentOf("far%d", %s) %%>`, l, d), be
	}
	panic("kind")
}

func c09Build(levels []c09Level) (src, exp string, partials map[string]string) {
	g := &c09Gen{levels: levels, partials: map[string]string{}}
	g.names = []string{"o"}
	for l := 1; l <= len(levels); l++ {
		g.names = append(g.names, fmt.Sprintf("f%d", l), fmt.Sprintf("lv%d", l), fmt.Sprintf("p%d", l), fmt.Sprintf("d%d", l))
	}
	g.top = &c09Scope{vars: map[string]string{"o": "O"}}
	cs, ce := g.construct(1, g.top)
	src = `<% let o = "O" %>` + g.hoist.String() + cs + "(0:" + g.probesSrc() + ")"
	exp = ce + "(0:" + g.probesExp(g.top) + ")"
	// top-level let persists across tags
	src += `<% let late = "L" %><%= late %><%= o %>`
	exp += "L" + g.top.vars["o"]
	return src, exp, g.partials
}

func c09Context(partials map[string]string) *plush.Context {
	c := plush.NewContext()
	c.Set("one", []int{7})
	c.Set("blk", func(help plush.HelperContext) (template.HTML, error) {
		s, err := help.Block()
		return template.HTML("{" + s + "}"), err
	})
	c.Set("bwith", func(help plush.HelperContext) (template.HTML, error) {
		s, err := help.BlockWith(help.New())
		return template.HTML(s), err
	})
	c.Set("bwctx", func(help plush.HelperContext) (template.HTML, error) {
		s, err := help.BlockWith(plush.NewContextWithContext(help.Context))
		return template.HTML(s), err
	})
	c.Set("partialFeeder", func(name string) (string, error) {
		if s, ok := partials[name]; ok {
			return s, nil
		}
		return "", fmt.Errorf("no partial %q", name)
	})
	return c
}

func init() {
	engine.Register(&engine.Prop{
		ID: "C09",
		Shards: func(th bool) []string {
			s := []string{"repeat", "deep"}
			for k := range c09Kinds {
				for sub := 0; sub < 8; sub++ {
					s = append(s, fmt.Sprintf("%d:%d", k, sub))
				}
			}
			return s
		},
		Run:  c09Run,
		Rule: "nestings of {for over a slice / an Iterator / a map, user-function call, partial with data, contentFor+contentOf with data, contentOf default block with data, block helper using BlockWith(child), block helper using BlockWith(NewContextWithContext(its own context)), block helper using Block(), if, contentFor defined at top level and used at the inner level, one contentFor block used twice (with and without data), one data map held in a variable and passed to two partial calls}; at each level every subset of {let fresh_l, shadowing let o, assignment o = …}; every name (o, fresh names, loop variables, parameters, data names of every level) is probed at the end of each body, after each construct closes and at the end of the template; compared with an environment-chain reference model (let/assign bind in the current scope, lookup outward; for/call/partial/contentOf/BlockWith open a scope, if and Block() do not; a far contentFor block runs in a child of its definition scope). (repeat) every scope-opening construct entered twice or more from the same place (a function called from two tags / from every loop iteration / recursively, a partial and a contentOf rendered twice, a partial that renders its own text recursively with the cache off and on, a loop run twice, BlockWith twice): the body reads a name BEFORE its own let of that name, or lets it on one path only - every entry must see the outer value (or nothing), never what an earlier entry (of this or another function) bound; one partial / contentOf call site evaluated in different scopes (function called twice, inner loop re-entered, stored block used with different data); names carried by a wrapped Go context (NewContextWithContext) read in every scope; an outer variable / context value named like a built-in helper read two and three scopes down (function in function, loop in function, partial in partial); a name bound to nil inside (loop variable, parameter, let, partial / contentOf data) hides the same-named outer variable. (deep) a contentFor block defined 0..9 scopes deep (for loops / BlockWith children / function bodies) and rendered with data 0..4 scopes further in: block data and block lets are gone after the call, every variable of the calling scopes is still readable; a name bound at level j of D nested scopes (D = 1..24, 31..33, 40, 64, 65, 100; every j up to 24, boundary j beyond) read from the innermost scope together with the first, middle and last level's own variables; a function calling itself D deep below a shadowing parameter, a loop variable, a let in a middle frame. Non-trivial: depth >= 2 with at least one binding action.",
		Bound: func(th bool) string {
			if th {
				return "depth <=3, all 8 action subsets per level"
			}
			return "depth <=2 with all 8 action subsets per level; depth 3 with subsets {none, all} at levels 2 and 3"
		},
	})
}

func c09Run(t *engine.T, shard string) {
	if shard == "repeat" {
		c09Repeat(t)
		return
	}
	if shard == "deep" {
		c09Deep(t)
		return
	}
	var k0, s0 int
	fmt.Sscanf(shard, "%d:%d", &k0, &s0)
	run := func(levels []c09Level) {
		lv := append([]c09Level{}, levels...)
		for i := 0; i < len(lv)-1; i++ {
			if k := c09Kinds[lv[i].kind]; k == "cfar" || k == "cf2" || k == "pvar2" {
				return // cfar / cf2 are only generated as the innermost level
			}
		}
		var d []string
		act := 0
		for _, l := range lv {
			d = append(d, fmt.Sprintf("%s/%03b", c09Kinds[l.kind], l.subset))
			act += l.subset
		}
		t.Case("nest "+strings.Join(d, " > "), len(lv) >= 2 && act > 0, func() (string, *engine.Fail) {
			src, exp, partials := c09Build(lv)
			out, err := Render(src, c09Context(partials))
			if err != nil {
				return "", engine.Failf("mismatch", "unexpected error %v (template %q)", err, src)
			}
			if out != exp {
				return "", engine.Failf("mismatch", "expected %q, got %q (template %q)", exp, out, src)
			}
			return fmt.Sprintf("depth-%d", len(lv)), nil
		})
	}
	l1 := c09Level{k0, s0}
	run([]c09Level{l1})
	for k := range c09Kinds {
		for sub := 0; sub < 8; sub++ {
			l2 := c09Level{k, sub}
			run([]c09Level{l1, l2})
			subs3 := []int{0, 7}
			if t.Thorough {
				subs3 = []int{0, 1, 2, 3, 4, 5, 6, 7}
			} else if sub != 0 && sub != 7 {
				continue
			}
			for k3 := range c09Kinds {
				for _, sub3 := range subs3 {
					run([]c09Level{l1, l2, {k3, sub3}})
				}
			}
		}
	}
}

// c09Repeat: names bound by one entry of a scope-opening construct are gone at its next entry.
func c09Repeat(t *engine.T) {
	probeX := `<%= if (x) { %><%= x %><% } else { %>-<% } %>`
	cases := []struct{ name, src, want string }{
		{"function reads outer x before its own let, called from two tags", `<% let x = "outer" %><% let f = fn() { let r = x
 let x = "inner"
 return r + "/" + x } %><%= f() %>,<%= f() %>,<%= f() %>|<%= x %>`, "outer/inner,outer/inner,outer/inner|outer"},
		{"function lets a name on one path only, called per loop iteration", `<% let f = fn(n) { if (n == 1) { let t = "T" }
 if (t) { return "F" + n }
 return "-" + n } %><%= for (i) in [1, 2, 3, 1, 2] { %><%= f(i) %> <% } %>`, "F1 -2 -3 F1 -2 "},
		{"function with a parameter probed before a let of the same name", `<% let f = fn(a) { let r = a
 let a = "L"
 return r + a } %><%= f("1") %>,<%= f("2") %>,<%= f("3") %>`, "1L,2L,3L"},
		{"function called from a function twice", `<% let x = "o" %><% let g = fn() { let r = x
 let x = "i"
 return r } %><% let h = fn() { return g() + g() + g() } %><%= h() %>|<%= h() %>`, "ooo|ooo"},
		{"recursive function with a let after the self call", `<% let f = fn(n) { if (n == 0) { return "" }
 if (seen) { return "LEAK" }
 let rest = f(n - 1)
 let seen = "S"
 return rest + n } %><%= f(3) %>|<%= f(2) %>`, "123|12"},
		{"partial rendered twice", `<% let x = "outer" %><%= partial("px") %>,<%= partial("px") %>|<%= x %>`, "outer/inner,outer/inner|outer"},
		{"partial with data rendered per iteration", `<%= for (i) in [1, 2, 3] { %><%= partial("pt", {"n": i}) %> <% } %>`, "F1 -2 -3 "},
		{"contentOf rendered twice", `<% let x = "outer" %><% contentFor("c") { %>` + probeX + `/<% let x = "inner" %>` + probeX + `<% } %><%= contentOf("c") %>,<%= contentOf("c") %>|<%= x %>`, "outer/inner,outer/inner|outer"},
		{"contentOf default block rendered per iteration", `<%= for (i) in [1, 2, 3] { %><%= contentOf("undefined", {"n": i}) { %><% if (n == 1) { let t = "T" } %><%= if (t) { %>F<% } else { %>-<% } %><%= n %><% } %> <% } %>`, "F1 -2 -3 "},
		{"loop body lets a name after probing it, loop run twice", `<% let x = "outer" %><%= for (k) in [1, 2] { %><%= for (i) in [1] { %>` + probeX + `/<% let x = "inner" %>` + probeX + `,<% } %><% } %>|<%= x %>`, "outer/inner,outer/inner,|outer"},
		{"BlockWith(child) twice by one helper", `<% let x = "outer" %><%= twice() { %>` + probeX + `/<% let x = "inner" %>` + probeX + `,<% } %>|<%= x %>`, "outer/inner,outer/inner,|outer"},
		{"an outer variable named like a built-in helper stays readable two and three scopes down", `<% let len = "L" %><% let truncate = "T" %><% let g = fn() { return len + truncate } %><% let f = fn() { return g() + "/" + len } %><% let h = fn() { %><%= for (i) in [1] { %><%= len %><%= f() %><% } %><% } %><%= g() %>|<%= f() %>|<%= h() %>|<%= partial("plen2") %>|<%= len %>`, "LT|LT/L|LLT/L|[L(LT)]|L"},
		{"context data named like a built-in helper stays readable two and three scopes down", `<% let g = fn() { return env } %><% let f = fn() { return g() + "/" + env } %><%= f() %>|<%= for (i) in [1] { %><%= f() %><% } %>|<%= partial("penv2") %>`, "staging/staging|staging/staging|[staging(staging)]"},
		{"one call site of partial / contentOf evaluated in different scopes", `<% let f = fn(n) { %><%= partial("pn") %><% } %><%= f(1) %><%= f(2) %>|<%= for (a) in [1, 2] { %><%= for (b) in [a] { %><%= partial("pab") %><% } %><% } %>|<% contentFor("cc") { %>[<%= partial("pd2") %>]<% } %><%= contentOf("cc", {"d": 1}) %><%= contentOf("cc", {"d": 2}) %>|<% let g = fn(n) { %><%= contentOf("undef", {"k": n}) { %>(<%= k %><%= n %>)<% } %><% } %><%= g(1) %><%= g(2) %>`, "[n=1][n=2]|[1.1][2.2]|[d1][d2]|(11)(22)"},
		{"one function's let does not show in another function's body", `<% let t = "outer" %><% let f = fn() { let t = "two"
 return t } %><% let g = fn() { return t } %><% let h = fn(t) { return t } %><%= g() %>|<%= f() %>|<%= g() %>|<%= h("p") %>|<%= g() %>|<%= t %>`, "outer|two|outer|p|outer|outer"},
		{"a loop variable bound to nil hides the outer variable", `<% let x = "outer" %><%= for (x) in mixednil { %>[<%= if (x) { %><%= x %><% } else { %>nil<% } %>]<% } %>|<%= x %>`, "[1][nil][3]|outer"},
		{"a parameter bound to nil hides the outer variable", `<% let a = "outer" %><% let f = fn(a) { if (a) { return "seen:" + a }
 return "nil" } %><%= f(nil) %>|<%= f("v") %>|<%= f(nil) %>|<%= a %>`, "nil|seen:v|nil|outer"},
		{"a let to nil inside a function hides the outer variable", `<% let user = "root" %><% let g = fn() { let user = nil
 if (user) { return "user=" + user }
 return "anonymous" } %><%= g() %>|<%= user %>`, "anonymous|root"},
		{"partial data bound to nil hides the outer variable", `<% let x = "outer" %><%= partial("pnil", {"x": nil}) %>|<%= x %>`, "nil|outer"},
		{"contentOf data bound to nil hides the outer variable", `<% let x = "outer" %><% contentFor("cn") { %><%= if (x) { %><%= x %><% } else { %>nil<% } %><% } %><%= contentOf("cn", {"x": nil}) %>|<%= contentOf("cn") %>|<%= x %>`, "nil|outer|outer"},
		{"function defined in a loop body and called there", `<% let x = "outer" %><%= for (i) in [1, 2] { %><% let f = fn() { let r = x
 let x = "in" + i
 return r + "/" + x } %><%= f() %>,<%= f() %>;<% } %>|<%= x %>`, "outer/in1,outer/in1;outer/in2,outer/in2;|outer"},
	}
	// re-entering the very same template text while it is running (a partial that renders itself), cache off and on:
	// each level reads its own names after the nested level has ended
	for _, cached := range []bool{false, true} {
		cached := cached
		self := `<%= if (d < 2) { %><%= partial("self", {"n": n + "x", "d": d + 1}) %><% } %>[<%= n %> d=<%= d %><% let own = n %>]<%= own %>`
		t.Case(fmt.Sprintf("repeat self-recursive partial cache=%v %s", cached, q(self)), true, func() (string, *engine.Fail) {
			plush.VerifCacheReset()
			plush.CacheEnabled = cached
			defer func() { plush.CacheEnabled = false; plush.VerifCacheReset() }()
			want := "[nxx d=2]nxx[nx d=1]nx[n d=0]n"
			for pass := 1; pass <= 3; pass++ {
				ctx := plush.NewContext()
				ctx.Set("partialFeeder", func(string) (string, error) { return self, nil })
				ctx.Set("n", "n")
				ctx.Set("d", 0)
				out, err := plush.Render(self, ctx)
				if err != nil || out != want {
					return "", engine.Failf("mismatch", "pass %d: expected %q, got %q / %v", pass, want, out, err)
				}
			}
			return "repeat", nil
		})
	}
	// names carried by the Go context a plush context wraps are outer variables too: readable in every scope
	t.Case("repeat names from a wrapped Go context", true, func() (string, *engine.Fail) {
		plush.CacheEnabled = false
		ctx := plush.NewContextWithContext(context.WithValue(context.Background(), "user", "Ann"))
		ctx.Set("partialFeeder", func(string) (string, error) { return `[<%= user %>]`, nil })
		src := `<%= user %>|<%= for (i) in [1] { %><%= user %><% } %>|<% let f = fn() { return user } %><%= f() %>|<%= partial("p") %>|<% contentFor("c") { %><%= user %><% } %><%= contentOf("c") %>|<%= contentOf("u") { %><%= user %><% } %>|<%= for (i) in [1] { %><%= for (j) in [1] { %><%= f() %><% } %><% } %>`
		out, err := plush.Render(src, ctx)
		want := "Ann|Ann|Ann|[Ann]|Ann|Ann|Ann"
		if err != nil || out != want {
			return "", engine.Failf("mismatch", "expected %q, got %q / %v", want, out, err)
		}
		return "repeat", nil
	})
	for _, c := range cases {
		c := c
		t.Case("repeat "+c.name+" "+q(c.src), true, func() (string, *engine.Fail) {
			ctx := c09Context(map[string]string{
				"px":   `<%= x %>/<% let x = "inner" %><%= x %>`,
				"pt":   `<% if (n == 1) { let t = "T" } %><%= if (t) { %>F<% } else { %>-<% } %><%= n %>`,
				"pnil": `<%= if (x) { %><%= x %><% } else { %>nil<% } %>`,
				"pn":   `[n=<%= n %>]`, "pab": `[<%= a %>.<%= b %>]`, "pd2": `d<%= d %>`,
				"plen2": `[<%= len %><%= partial("plen3") %>]`, "plen3": `(<%= len %><%= truncate %>)`,
				"penv2": `[<%= env %><%= partial("penv3") %>]`, "penv3": `(<%= env %>)`,
			})
			ctx.Set("mixednil", []interface{}{1, nil, 3})
			ctx.Set("env", "staging") // named like the built-in helper env
			ctx.Set("twice", func(help plush.HelperContext) (template.HTML, error) {
				a, err := help.BlockWith(help.New())
				if err != nil {
					return "", err
				}
				b, err := help.BlockWith(help.New())
				return template.HTML(a + b), err
			})
			out, err := Render(c.src, ctx)
			if err != nil || out != c.want {
				return "", engine.Failf("mismatch", "expected %q, got %q / %v", c.want, out, err)
			}
			return "repeat", nil
		})
	}
}

// c09Deep: the same rules many scopes down. (stored) a contentFor block defined dDef scopes deep and rendered
// with data by contentOf m scopes further in: its data and its let are gone after the call, the caller's own
// variables are all still there. (chain) a name bound j scopes out of D is read from the innermost one.
func c09Deep(t *engine.T) {
	probe := func(n string) string { return `<%= if (` + n + `) { %><%= ` + n + ` %><% } else { %>-<% } %>` }
	for _, kind := range []string{"for", "bwith", "fn"} {
		for dDef := 0; dDef <= 9; dDef++ {
			for m := 0; m <= 4; m++ {
				var open strings.Builder
				lastDef, lastUse := "-", "-"
				level := func(i int, pre string) string {
					n := fmt.Sprintf("%s%d", pre, i)
					switch kind {
					case "for":
						open.WriteString(`<%= for (` + n + `) in ["` + strings.ToUpper(n) + `"] { %>`)
						return strings.ToUpper(n)
					case "bwith":
						open.WriteString(`<%= bwith() { %><% let ` + n + ` = "` + strings.ToUpper(n) + `" %>`)
						return strings.ToUpper(n)
					}
					open.WriteString(`<% let f` + n + ` = fn(` + n + `) { %>`)
					return strings.ToUpper(n)
				}
				for i := 1; i <= dDef; i++ {
					lastDef = level(i, "a")
				}
				defProbe := "-"
				if dDef > 0 {
					defProbe = lastDef
				}
				open.WriteString(`<% contentFor("cell") { %><% let z = "bl" %>(<%= k %>/<%= z %>/` + probe(fmt.Sprintf("a%d", dDef)) + `)<% } %>`)
				lastUse = lastDef
				for i := 1; i <= m; i++ {
					lastUse = level(i, "b")
				}
				useVar := fmt.Sprintf("b%d", m)
				if m == 0 {
					useVar = fmt.Sprintf("a%d", dDef)
				}
				if dDef+m == 0 {
					lastUse = "-"
				}
				first := "-"
				firstVar := "a1"
				if dDef > 0 {
					first = "A1"
				} else if m > 0 {
					first, firstVar = "B1", "b1"
				}
				body := `<% let x = "inner" %>[<%= contentOf("cell", {"k": "data"}) %>x=<%= x %>;k=` + probe("k") + `;z=` + probe("z") + `;i=` + probe(useVar) + `;f=` + probe(firstVar) + `]`
				src := `<% let x = "outer" %>` + open.String() + body + c09Closers(kind, dDef, m) + `|x=<%= x %>`
				tail := "outer"
				if dDef+m == 0 {
					tail = "inner"
				}
				want := `[(data/bl/` + defProbe + `)x=inner;k=-;z=-;i=` + lastUse + `;f=` + first + `]|x=` + tail
				t.Case(fmt.Sprintf("deep stored-block %s def=%d use=+%d %s", kind, dDef, m, q(src)), true, func() (string, *engine.Fail) {
					out, err := Render(src, c09Context(nil))
					if err != nil || out != want {
						return "", engine.Failf("mismatch", "expected %q, got %q / %v", want, out, err)
					}
					return "stored-block", nil
				})
			}
		}
	}
	depths := []int{}
	for d := 1; d <= 24; d++ {
		depths = append(depths, d)
	}
	depths = append(depths, 31, 32, 33, 40, 64, 65, 100)
	for _, kind := range []string{"for", "bwith", "fn"} {
		for _, D := range depths {
			for j := 0; j <= D; j++ {
				if D > 24 && j != 0 && j != 1 && j != D/2 && j != D-17 && j != D-16 && j != D-15 && j != D-1 && j != D {
					continue
				}
				var open strings.Builder
				open.WriteString(`<% let m = "top" %><% let keep = "K" %>`)
				for i := 1; i <= D; i++ {
					n := fmt.Sprintf("v%d", i)
					switch kind {
					case "for":
						open.WriteString(`<%= for (` + n + `) in ["` + strings.ToUpper(n) + `"] { %>`)
					case "bwith":
						open.WriteString(`<%= bwith() { %><% let ` + n + ` = "` + strings.ToUpper(n) + `" %>`)
					case "fn":
						open.WriteString(`<% let f` + n + ` = fn(` + n + `) { %>`)
					}
					if i == j {
						open.WriteString(`<% let m = "M` + fmt.Sprint(j) + `" %>`)
					}
				}
				mid := D/2 + 1
				src := open.String() + `[<%= m %>/<%= keep %>/<%= v1 %>/<%= v` + fmt.Sprint(mid) + ` %>/<%= v` + fmt.Sprint(D) + ` %>/<%= len(m) %>]` + c09Closers2(kind, D) + `|<%= m %>`
				mv := "top"
				if j > 0 {
					mv = "M" + fmt.Sprint(j)
				}
				want := `[` + mv + `/K/V1/V` + fmt.Sprint(mid) + `/V` + fmt.Sprint(D) + `/` + fmt.Sprint(len(mv)) + `]|top`
				t.Case(fmt.Sprintf("deep chain %s depth=%d bound-at=%d", kind, D, j), true, func() (string, *engine.Fail) {
					vtick.Reset(20_000_000)
					out, err := Render(src, c09Context(nil))
					if err != nil || out != want {
						return "", engine.Failf("mismatch", "expected %q, got %q / %v (template %q)", want, out, err, src)
					}
					return "chain", nil
				})
			}
			// a function calling itself D deep below a caller whose parameter shadows a top-level name, and below a loop
			D := D
			for _, c := range []struct{ name, src, want string }{
				{"shadowing parameter", `<% let marker = "M" %><% let tag = "top" %><% let walk = fn(n) { if (n == 0) { return marker + len(marker) + tag }
 let r = walk(n - 1)
 return r } %><% let start = fn(tag, depth) { return walk(depth) } %><%= start("mid", ` + fmt.Sprint(D) + `) %>|<%= tag %>|<%= walk(` + fmt.Sprint(D) + `) %>`, "M1mid|top|M1top"},
				{"loop variable", `<% let deep = fn(n) { if (n == 0) { return row }
 let r = deep(n - 1)
 return r } %><%= for (row) in ["a", "b"] { %>[<%= deep(` + fmt.Sprint(D) + `) %>]<% } %>`, "[a][b]"},
				{"let in a middle frame", `<% let w = "top" %><% let down = fn(n) { if (n == 0) { return w }
 if (n == ` + fmt.Sprint(D/2+1) + `) { let w = "mid" 
 return down(n - 1) }
 return down(n - 1) } %><%= down(` + fmt.Sprint(D) + `) %>|<%= w %>`, "mid|top"},
			} {
				if kind != "fn" {
					continue
				}
				c := c
				t.Case(fmt.Sprintf("deep recursion %s depth=%d %s", c.name, D, q(c.src)), true, func() (string, *engine.Fail) {
					vtick.Reset(20_000_000)
					out, err := Render(c.src, c09Context(nil))
					if err != nil || out != c.want {
						return "", engine.Failf("mismatch", "expected %q, got %q / %v", c.want, out, err)
					}
					return "recursion", nil
				})
			}
		}
	}
}

// c09Closers closes dDef outer and m inner levels opened by c09Deep's first family, innermost first.
func c09Closers(kind string, dDef, m int) string {
	var sb strings.Builder
	for i := m; i >= 1; i-- {
		sb.WriteString(`<% } %>`)
		if kind == "fn" {
			sb.WriteString(fmt.Sprintf(`<%%= fb%d("B%d") %%>`, i, i))
		}
	}
	for i := dDef; i >= 1; i-- {
		sb.WriteString(`<% } %>`)
		if kind == "fn" {
			sb.WriteString(fmt.Sprintf(`<%%= fa%d("A%d") %%>`, i, i))
		}
	}
	return sb.String()
}

func c09Closers2(kind string, D int) string {
	var sb strings.Builder
	for i := D; i >= 1; i-- {
		sb.WriteString(`<% } %>`)
		if kind == "fn" {
			sb.WriteString(fmt.Sprintf(`<%%= fv%d("V%d") %%>`, i, i))
		}
	}
	return sb.String()
}
