package props

import (
	"errors"
	"fmt"
	"html/template"
	"reflect"
	"strings"

	"verifmc/engine"

	plush "github.com/gobuffalo/plush/v5"
	"github.com/gobuffalo/plush/v5/helpers/hctx"
)

// C12 — Go helpers receive exactly the supplied arguments, in order, or are not called.

var (
	c12TString = reflect.TypeOf("")
	c12TInt    = reflect.TypeOf(0)
	c12TIface  = reflect.TypeOf((*interface{})(nil)).Elem()
	c12TPtr    = reflect.TypeOf((*Person)(nil))
	c12TMap    = reflect.TypeOf(map[string]interface{}{})
	c12THMap   = reflect.TypeOf(hctx.Map{})
	c12TCtx    = reflect.TypeOf(plush.HelperContext{})
	c12TICtx   = reflect.TypeOf((*hctx.HelperContext)(nil)).Elem()
	c12TErr    = reflect.TypeOf((*error)(nil)).Elem()
	c12TAppCtx = reflect.TypeOf((*AppHelperContext)(nil)).Elem()
)

// AppHelperContext is an application-defined interface with the helper-context method set
// (a different type than hctx.HelperContext).
type AppHelperContext interface {
	hctx.Context
	Block() (string, error)
	BlockWith(hctx.Context) (string, error)
	HasBlock() bool
	Render(s string) (string, error)
}

type c12Param struct {
	name string
	t    reflect.Type
	role string // plain | map | ctx
}

var c12Fixed = []c12Param{
	{"string", c12TString, "plain"}, {"int", c12TInt, "plain"}, {"interface{}", c12TIface, "plain"}, {"*Person", c12TPtr, "plain"},
}

type c12Tail struct {
	name     string
	params   []c12Param
	variadic reflect.Type // element type, nil if not variadic
}

var c12Tails = []c12Tail{
	{"", nil, nil},
	{"map", []c12Param{{"map[string]interface{}", c12TMap, "map"}}, nil},
	{"hctx.Map", []c12Param{{"hctx.Map", c12THMap, "map"}}, nil},
	{"HelperContext", []c12Param{{"plush.HelperContext", c12TCtx, "ctx"}}, nil},
	{"hctx.HelperContext", []c12Param{{"hctx.HelperContext", c12TICtx, "ctx"}}, nil},
	{"map+HelperContext", []c12Param{{"map[string]interface{}", c12TMap, "map"}, {"plush.HelperContext", c12TCtx, "ctx"}}, nil},
	{"hctx.Map+hctx.HelperContext", []c12Param{{"hctx.Map", c12THMap, "map"}, {"hctx.HelperContext", c12TICtx, "ctx"}}, nil},
	{"app-defined context interface", []c12Param{{"AppHelperContext", c12TAppCtx, "ctx"}}, nil},
	{"map+app-defined context interface", []c12Param{{"map[string]interface{}", c12TMap, "map"}, {"AppHelperContext", c12TAppCtx, "ctx"}}, nil},
	{"HelperContext+map", []c12Param{{"plush.HelperContext", c12TCtx, "ctx"}, {"map[string]interface{}", c12TMap, "map"}}, nil},
	{"hctx.HelperContext+hctx.Map", []c12Param{{"hctx.HelperContext", c12TICtx, "ctx"}, {"hctx.Map", c12THMap, "map"}}, nil},
	{"...int", nil, c12TInt},
	{"...string", nil, c12TString},
	{"...interface{}", nil, c12TIface},
}

var c12Results = []string{"()", "(T)", "(T,nil)", "(T,err)", "(nil-error)", "(error)"}

type c12Arg struct {
	src string
	val interface{}
}

var c12Args = []c12Arg{
	{"nil", nil}, {`"s"`, "s"}, {"1", 1}, {`{"a": 1}`, map[string]interface{}{"a": 1}}, {"[1]", []interface{}{1}}, {"true", true},
	{"np", (*Person)(nil)}, {"pp", c12Person}, // typed nil pointer and pointer taken from the context
}

var c12Person = &Person{Name: "ctx"}

var c12TOther = reflect.TypeOf((*PLeaf)(nil))

func init() {
	c12Fixed = append(c12Fixed, c12Param{"*PLeaf", c12TOther, "plain"})
}

type c12Record struct {
	calls    int
	args     []interface{} // received positional values (variadic tail flattened after the fixed ones)
	hasBlock []bool        // per ctx param
	blocks   []string
	ctxZero  []bool
}

func c12MakeFunc(params []c12Param, variadic reflect.Type, result string, rec *c12Record) interface{} {
	var in []reflect.Type
	for _, p := range params {
		in = append(in, p.t)
	}
	if variadic != nil {
		in = append(in, reflect.SliceOf(variadic))
	}
	var out []reflect.Type
	switch result {
	case "(T)":
		out = []reflect.Type{c12TString}
	case "(T,nil)", "(T,err)":
		out = []reflect.Type{c12TString, c12TErr}
	case "(nil-error)", "(error)":
		out = []reflect.Type{c12TErr}
	}
	ft := reflect.FuncOf(in, out, variadic != nil)
	fn := reflect.MakeFunc(ft, func(a []reflect.Value) []reflect.Value {
		rec.calls++
		for i, v := range a {
			if variadic != nil && i == len(a)-1 {
				for j := 0; j < v.Len(); j++ {
					rec.args = append(rec.args, v.Index(j).Interface())
				}
				continue
			}
			iv := v.Interface()
			if i < len(params) && params[i].role == "map" && v.Kind() == reflect.Map && !v.IsNil() {
				// helpers write defaults into their options: record what was received, then leave a mark in the map
				// itself - the next call that omits its options must still receive an empty map of its own
				cp := reflect.MakeMap(v.Type())
				for _, k := range v.MapKeys() {
					cp.SetMapIndex(k, v.MapIndex(k))
				}
				iv = cp.Interface()
				v.SetMapIndex(reflect.ValueOf("touched-by-helper"), reflect.ValueOf(rec.calls))
			}
			rec.args = append(rec.args, iv)
			if i < len(params) && params[i].role == "ctx" {
				var hc hctx.HelperContext
				zero := false
				switch t := iv.(type) {
				case plush.HelperContext:
					if t.Context == nil {
						zero = true
					} else {
						hc = t
					}
				case hctx.HelperContext:
					hc = t
				case nil:
					zero = true
				}
				rec.ctxZero = append(rec.ctxZero, zero)
				if !zero {
					rec.hasBlock = append(rec.hasBlock, hc.HasBlock())
					b := ""
					if hc.HasBlock() {
						b, _ = hc.Block()
					}
					rec.blocks = append(rec.blocks, b)
				}
			}
		}
		errNil := reflect.Zero(c12TErr)
		errVal := reflect.ValueOf(&ErrSentinel).Elem()
		switch result {
		case "(T)":
			return []reflect.Value{reflect.ValueOf("R")}
		case "(T,nil)":
			return []reflect.Value{reflect.ValueOf("R"), errNil}
		case "(T,err)":
			return []reflect.Value{reflect.ValueOf("R"), errVal}
		case "(nil-error)":
			return []reflect.Value{errNil}
		case "(error)":
			return []reflect.Value{errVal}
		}
		return nil
	})
	return fn.Interface()
}

// reference binder -------------------------------------------------------

type c12Expect struct {
	outcome string        // invoke | error | unspecified
	vals    []interface{} // expected received values for the supplied positions
	autoCtx int           // number of auto-supplied ctx params
	autoMap int
}

func c12Zero(t reflect.Type) interface{} { return reflect.Zero(t).Interface() }

// c12Same: equal values; a map[string]interface{} received through a parameter of the
// named type hctx.Map is the same value under Go's assignment conversion.
func c12Same(got, want interface{}) bool {
	if reflect.DeepEqual(got, want) {
		return true
	}
	if got == nil || want == nil {
		return false
	}
	gv, wt := reflect.ValueOf(got), reflect.TypeOf(want)
	if gv.Kind() == reflect.Map && wt.Kind() == reflect.Map && gv.Type().ConvertibleTo(wt) {
		return reflect.DeepEqual(gv.Convert(wt).Interface(), want)
	}
	return false
}

func c12Assignable(v interface{}, t reflect.Type) bool {
	if v == nil {
		return true
	}
	return reflect.TypeOf(v).AssignableTo(t)
}

func c12Bind(params []c12Param, variadic reflect.Type, args []c12Arg) c12Expect {
	n := len(params)
	if variadic == nil {
		if len(args) > n {
			return c12Expect{outcome: "error"}
		}
		var vals []interface{}
		for i, a := range args {
			if !c12Assignable(a.val, params[i].t) {
				return c12Expect{outcome: "error"}
			}
			if a.val == nil {
				vals = append(vals, c12Zero(params[i].t))
			} else {
				vals = append(vals, a.val)
			}
		}
		ex := c12Expect{outcome: "invoke", vals: vals}
		diff := n - len(args)
		if diff > 2 {
			ex.outcome = "unspecified"
			return ex
		}
		for i := len(args); i < n; i++ {
			switch params[i].role {
			case "ctx":
				ex.autoCtx++
			case "map":
				ex.autoMap++
			default:
				ex.outcome = "unspecified" // omitted ordinary parameter
			}
		}
		return ex
	}
	if len(args) < n {
		return c12Expect{outcome: "error"}
	}
	var vals []interface{}
	for i, a := range args {
		t := variadic
		if i < n {
			t = params[i].t
		}
		if !c12Assignable(a.val, t) {
			return c12Expect{outcome: "error"}
		}
		if a.val == nil {
			vals = append(vals, c12Zero(t))
		} else {
			vals = append(vals, a.val)
		}
	}
	return c12Expect{outcome: "invoke", vals: vals}
}

func init() {
	engine.Register(&engine.Prop{
		ID: "C12",
		Shards: func(th bool) []string {
			s := []string{"chain", "poly"}
			for ti := range c12Tails {
				for ri := range c12Results {
					s = append(s, fmt.Sprintf("%d:%d", ti, ri))
				}
			}
			return s
		},
		Run:  c12Run,
		Rule: "signatures built with reflect.FuncOf/MakeFunc (each is a recording helper): 0..2 (3 thorough) fixed parameters over {string,int,interface{},*struct,*other-struct} x tail {none, map[string]interface{}, hctx.Map, plush.HelperContext, hctx.HelperContext, an application-defined interface with the same method set, map+context in all typings, context+map (the two in the other order), ...int, ...string, ...interface{}} x result shapes {(), (T), (T,nil), (T,err), (nil error), (error)}; calls with every argument list of length 0..3 (4 thorough) over {nil, \"s\", 1, hash literal, array literal, true, typed nil pointer and non-nil pointer from the context}, each argument wrapped in a logging identity helper, without a block, with a block and with an empty block, after an earlier completed helper call with more arguments. Reference binder: too many / non-assignable => error naming the callee, function not invoked; otherwise invoked exactly once with every supplied value unchanged (nil => zero value of the parameter type, also in the variadic tail), omitted trailing map => non-nil empty map of the call's own (every recording helper writes a mark into the map it received), omitted helper context => context whose HasBlock()/Block() reflect the call's block; argument log duplicate-free, in source order (a prefix when binding fails); first result is the value, non-nil trailing error fails the render. Omitted ordinary parameters are unspecified (either error or zero-fill accepted, supplied positions still checked). Polymorphic call sites: one method call node evaluated with receivers of 3 struct types (and a pointer) whose method sets put the name at different positions, in a loop over a mixed slice and as consecutive executions of one parsed template: the named method is invoked with the supplied argument. Refresh: literal hash / array arguments of a call site evaluated repeatedly (loop, function called thrice, second execution) whose helper modifies what it received: every call receives the literal afresh. Error result shapes: trailing results declared as *E, E (value type), error holding a typed nil, (T, int, error): nil does not fail the render, non-nil does. Indexed receivers: methods called on rs[i] / m[k] / h.Rs[i] / a helper result's element with arguments that mention the indexed variable (the whole list, another element, len of it): the arguments arrive unchanged. Chained calls: (T, error) functions and methods followed by nothing / field / method / nested path / index, in 8 statement forms, succeeding and failing: invoked once, arguments evaluated once, a failing call fails the render with the function's error wrapped and its value is never used. Non-trivial: at least one argument or an auto-supplied parameter.",
		Bound: func(th bool) string {
			if th {
				return "<=3 fixed parameters, <=4 arguments"
			}
			return "<=2 fixed parameters, <=3 arguments"
		},
	})
}

func c12Run(t *engine.T, shard string) {
	if shard == "chain" {
		c12Chain(t)
		c12Indexed(t)
		c12ErrorShapes(t)
		c12Refresh(t)
		c12Blocks(t)
		c12NoBlock(t)
		return
	}
	if shard == "poly" {
		// the method that is invoked is the one the template names, whatever receiver types this call site saw before
		for _, pc := range PolyCases() {
			pc := pc
			t.Case("poly "+pc.Name+" "+q(pc.Src), true, func() (string, *engine.Fail) {
				out, err := RunPoly(pc)
				if err != nil || out != pc.Want {
					return "", engine.Failf("wrong-callee", "expected %q (the named method of each receiver, with the supplied argument), got %q / %v", pc.Want, out, err)
				}
				return "invoked", nil
			})
		}
		return
	}
	var ti, ri int
	fmt.Sscanf(shard, "%d:%d", &ti, &ri)
	tail := c12Tails[ti]
	result := c12Results[ri]
	maxFixed, maxArgs := 2, 3
	if t.Thorough {
		maxFixed, maxArgs = 3, 4
	}
	var fixedLists [][]c12Param
	var recF func(cur []c12Param)
	recF = func(cur []c12Param) {
		fixedLists = append(fixedLists, append([]c12Param{}, cur...))
		if len(cur) == maxFixed {
			return
		}
		for _, p := range c12Fixed {
			recF(append(cur[:len(cur):len(cur)], p))
		}
	}
	recF(nil)
	var argLists [][]c12Arg
	var recA func(cur []c12Arg)
	recA = func(cur []c12Arg) {
		argLists = append(argLists, append([]c12Arg{}, cur...))
		if len(cur) == maxArgs {
			return
		}
		for _, a := range c12Args {
			recA(append(cur[:len(cur):len(cur)], a))
		}
	}
	recA(nil)
	for _, fixed := range fixedLists {
		params := append(append([]c12Param{}, fixed...), tail.params...)
		var pn []string
		for _, p := range params {
			pn = append(pn, p.name)
		}
		if tail.variadic != nil {
			pn = append(pn, tail.name)
		}
		sig := "func(" + strings.Join(pn, ", ") + ") " + result
		for _, args := range argLists {
			for _, block := range []string{"", "BLK", "empty"} {
				c12One(t, sig, params, tail.variadic, result, args, block)
			}
		}
	}
}

func c12One(t *engine.T, sig string, params []c12Param, variadic reflect.Type, result string, args []c12Arg, blockKind string) {
	block := blockKind != ""
	blockText := ""
	if blockKind == "BLK" {
		blockText = "BLK"
	}
	var as []string
	for i, a := range args {
		as = append(as, fmt.Sprintf("w(%d, %s)", i, a.src))
	}
	call := "helperUnderTest(" + strings.Join(as, ", ") + ")"
	// an earlier, completed helper call with many arguments (evaluator scratch state must not leak into the call under test)
	warm := `<% warm(1, 2, 3, 4, 5, warm(6)) %>`
	src := warm + "A<%= " + call + " %>B"
	if block {
		src = warm + "A<%= " + call + " { %>" + blockText + "<% } %>B"
	}
	ex := c12Bind(params, variadic, args)
	nt := len(args) > 0 || ex.autoCtx+ex.autoMap > 0
	t.Case("sig="+sig+" call="+src, nt, func() (string, *engine.Fail) {
		rec := &c12Record{}
		var log []int
		ctx := plush.NewContext()
		ctx.Set("helperUnderTest", c12MakeFunc(params, variadic, result, rec))
		ctx.Set("w", func(i int, v interface{}) interface{} { log = append(log, i); return v })
		ctx.Set("warm", func(a ...interface{}) string { return "" })
		ctx.Set("np", (*Person)(nil))
		ctx.Set("pp", c12Person)
		out, err := Render(src, ctx)
		if f := Totality(out, err); f != nil {
			return "", f
		}
		// evaluation log: duplicate-free, in source order, a prefix
		for i, v := range log {
			if v != i {
				return "", engine.Failf("arg-evaluation", "arguments evaluated in order %v (expected each once, left to right)", log)
			}
		}
		if rec.calls > 1 {
			return "", engine.Failf("invoked-twice", "helper invoked %d times", rec.calls)
		}
		checkVals := func() *engine.Fail {
			if len(rec.args) < len(ex.vals) {
				return engine.Failf("args", "helper received %d values %#v, expected at least the %d supplied %#v", len(rec.args), rec.args, len(ex.vals), ex.vals)
			}
			for i, w := range ex.vals {
				if !c12Same(rec.args[i], w) {
					return engine.Failf("args", "argument %d: helper received %#v, expected %#v (all received: %#v)", i, rec.args[i], w, rec.args)
				}
			}
			if len(log) != len(args) {
				return engine.Failf("arg-evaluation", "helper invoked but only arguments %v of %d were evaluated", log, len(args))
			}
			return nil
		}
		switch ex.outcome {
		case "error":
			if rec.calls != 0 {
				return "", engine.Failf("invoked", "binding must fail (too many / not assignable / too few for variadic) but the helper was invoked with %#v", rec.args)
			}
			if err == nil {
				return "", engine.Failf("no-error", "binding must fail but Render returned %q", out)
			}
			if !strings.Contains(err.Error(), "helperUnderTest") {
				return "", engine.Failf("error-does-not-name-call", "error does not name the call: %v", err)
			}
			return "binding-error", nil
		case "unspecified":
			if rec.calls == 1 {
				if f := checkVals(); f != nil {
					return "", f
				}
				return "unspecified-invoked", nil
			}
			if err == nil {
				return "", engine.Failf("no-error", "helper not invoked but Render succeeded with %q", out)
			}
			return "unspecified-error", nil
		}
		// invoke
		if rec.calls != 1 {
			return "", engine.Failf("not-invoked", "helper must be invoked once, was invoked %d times (err=%v)", rec.calls, err)
		}
		if f := checkVals(); f != nil {
			return "", f
		}
		if variadic != nil && len(rec.args) != len(ex.vals) {
			return "", engine.Failf("args", "variadic helper received %d values %#v, expected exactly %d", len(rec.args), rec.args, len(ex.vals))
		}
		// auto-supplied parameters
		pos := len(ex.vals)
		nctx := 0
		for i := pos; i < len(params) && i < len(rec.args); i++ {
			switch params[i].role {
			case "map":
				rv := reflect.ValueOf(rec.args[i])
				if rv.Kind() != reflect.Map || rv.IsNil() || rv.Len() != 0 {
					return "", engine.Failf("auto-map", "omitted trailing options map: helper received %#v, expected a non-nil empty map", rec.args[i])
				}
			case "ctx":
				nctx++
			}
		}
		if variadic == nil && len(rec.args) != len(params) {
			return "", engine.Failf("args", "helper received %d values, has %d parameters", len(rec.args), len(params))
		}
		if nctx > 0 {
			// the auto-supplied ctx params are the last entries of hasBlock
			for i := len(rec.ctxZero) - nctx; i < len(rec.ctxZero); i++ {
				if i < 0 || rec.ctxZero[i] {
					return "", engine.Failf("auto-ctx", "omitted helper context was not supplied (zero value received)")
				}
			}
			hb := rec.hasBlock[len(rec.hasBlock)-nctx:]
			bl := rec.blocks[len(rec.blocks)-nctx:]
			for i := range hb {
				if hb[i] != block {
					return "", engine.Failf("auto-ctx", "helper context HasBlock()=%v but block present=%v", hb[i], block)
				}
				if block && bl[i] != blockText {
					return "", engine.Failf("auto-ctx", "helper context Block() rendered %q, expected %q", bl[i], blockText)
				}
			}
		}
		// result handling
		switch result {
		case "(T,err)", "(error)":
			if err == nil {
				return "", engine.Failf("error-result", "helper returned a non-nil error but Render succeeded with %q", out)
			}
			return "invoked-error-result", nil
		case "(T)", "(T,nil)":
			if err != nil || out != "ARB" {
				return "", engine.Failf("value", "expected output \"ARB\", got %q / %v", out, err)
			}
		default:
			if err != nil || out != "AB" {
				return "", engine.Failf("value", "expected output \"AB\", got %q / %v", out, err)
			}
		}
		return "invoked", nil
	})
}

var _ = template.HTML("")

type c12Err struct{ msg string }

func (e *c12Err) Error() string { return e.msg }

type c12ValErr struct{ msg string }

func (e c12ValErr) Error() string { return e.msg }

// c12ErrorShapes: the trailing error result may be declared with a concrete error type: nil does not fail the
// render, non-nil does (whatever the declared type).
func c12ErrorShapes(t *engine.T) {
	bad := &c12Err{"concrete failure"}
	helpers := map[string]interface{}{
		"pnil":     func() (string, *c12Err) { return "v", nil },
		"pbad":     func() (string, *c12Err) { return "v", bad },
		"ponly":    func() *c12Err { return bad },
		"ponlynil": func(s string) *c12Err { return nil },
		"vbad":     func() (string, c12ValErr) { return "v", c12ValErr{"value failure"} },
		"inil":     func() (string, error) { return "v", (*c12Err)(nil) }, // a typed nil inside the error interface
		"ibad":     func() (string, error) { return "v", bad },
		"three":    func() (string, int, error) { return "v", 1, bad },
	}
	cases := []struct {
		src  string
		fail bool
		want string
	}{
		{`A<%= pnil() %>B`, false, "AvB"}, {`A<%= pbad() %>B`, true, ""}, {`A<%= ponly() %>B`, true, ""}, {`A<% ponlynil("x") %>B`, false, "AB"},
		{`A<%= vbad() %>B`, true, ""}, {`A<%= inil() %>B`, true, ""}, {`A<%= ibad() %>B`, true, ""}, {`A<%= three() %>B`, true, ""},
		{`A<% let q = pnil() %><%= q %>B`, false, "AvB"}, {`A<% let q = pbad() %>B`, true, ""}, {`A<%= for (i) in [1, 2] { %><%= pnil() %><% } %>B`, false, "AvvB"},
		{`A<%= if (pnil() == "v") { %>y<% } %>B`, false, "AyB"}, {`A<%= if (pbad() == "v") { %>y<% } %>B`, true, ""},
	}
	for _, c := range cases {
		c := c
		t.Case("error-shape "+q(c.src), true, func() (string, *engine.Fail) {
			ctx := plush.NewContext()
			for k, v := range helpers {
				ctx.Set(k, v)
			}
			out, err := Render(c.src, ctx)
			if c.fail {
				if err == nil || out != "" {
					return "", engine.Failf("error-ignored", "the helper returned a non-nil error result but Render returned %q / %v", out, err)
				}
				return "invoked-error-result", nil
			}
			if err != nil || out != c.want {
				return "", engine.Failf("mismatch", "a nil trailing error result: expected %q, got %q / %v", c.want, out, err)
			}
			return "invoked", nil
		})
	}
}

// c12Refresh: a call site evaluated repeatedly hands the helper freshly evaluated arguments every time, also when
// they are literals and the helper modifies what it received.
func c12Refresh(t *engine.T) {
	cases := []struct{ src, want string }{
		{`<%= for (i) in [1, 2, 3] { %><%= strip({"class": "c", "id": "x"}) %>,<% } %>`, "2-1,2-1,2-1,"},
		{`<%= for (i) in [1, 2] { %><%= push([1, 2]) %>,<% } %>`, "2-3,2-3,"},
		{`<% let f = fn() { return strip({"class": "c"}) } %><%= f() %>|<%= f() %>|<%= f() %>`, "1-0|1-0|1-0"},
		{`<%= for (i) in [1, 2] { %><%= strip({"class": "c", "n": {"class": "d"}}) %>,<% } %>`, "2-1,2-1,"},
		{`<%= for (i) in [1, 2] { %><%= strip({}) %><%= strip({"a": i}) %>,<% } %>`, "0-01-1,0-01-1,"},
	}
	for _, c := range cases {
		c := c
		t.Case("refresh "+q(c.src), true, func() (string, *engine.Fail) {
			plush.CacheEnabled = false
			tm, err := plush.NewTemplate(c.src)
			if err != nil {
				return "", engine.Failf("harness", "%v", err)
			}
			for pass := 1; pass <= 2; pass++ {
				ctx := plush.NewContext()
				ctx.Set("strip", func(o map[string]interface{}) string {
					n := len(o)
					delete(o, "class")
					o["touched"] = true
					delete(o, "touched")
					return fmt.Sprintf("%d-%d", n, len(o))
				})
				ctx.Set("push", func(l []interface{}) string {
					n := len(l)
					l[0] = "changed"
					l = append(l, 9)
					return fmt.Sprintf("%d-%d", n, len(l))
				})
				out, err := tm.Exec(ctx)
				if err != nil || out != c.want {
					return "", engine.Failf("args", "execution %d: expected %q, got %q / %v", pass, c.want, out, err)
				}
			}
			return "invoked", nil
		})
	}
}

// c12Indexed: arguments of a method called on an indexed element are evaluated in the caller's scope: the
// indexed variable still names the whole collection there.
func c12Indexed(t *engine.T) {
	cases := []struct{ src, want string }{
		{`<%= rs[1].Seen(rs) %>`, "1 sees list3"}, {`<%= rs[0].Seen(rs[2]) %>`, "0 sees rec2"}, {`<%= rs[2].Seen(len(rs)) %>`, "2 sees int3"},
		{`<%= rs[0].Two(rs, rs[1]) %>`, "0 sees list3+0 sees rec1"}, {`<%= rm["a"].Seen(rm) %>`, "10 sees map2"}, {`<%= rm["a"].Seen(rm["b"]) %>`, "10 sees rec11"},
		{`<%= hold.Rs[0].Seen(hold.Rs[1]) %>`, "0 sees rec1"}, {`<%= hold.Rs[1].Seen(hold.Rs) %>`, "1 sees list3"}, {`<%= rs[i1].Seen(rs[i1]) %>`, "1 sees rec1"},
		{`<% let x = rs[1].Seen(rs) %><%= x %>`, "1 sees list3"}, {`<%= for (r) in rs { %><%= r.Seen(rs) %>,<% } %>`, "0 sees list3,1 sees list3,2 sees list3,"},
		{`<%= for (i, r) in rs { %><%= rs[i].Seen(rs) %>,<% } %>`, "0 sees list3,1 sees list3,2 sees list3,"}, {`<%= idv(rs)[2].Seen(rs) %>`, "2 sees list3"},
	}
	for _, c := range cases {
		c := c
		t.Case("indexed-receiver "+q(c.src), true, func() (string, *engine.Fail) {
			ctx := plush.NewContext()
			rs := []*c12Rec{{0}, {1}, {2}}
			ctx.Set("rs", rs)
			ctx.Set("rm", map[string]*c12Rec{"a": {10}, "b": {11}})
			ctx.Set("hold", struct{ Rs []*c12Rec }{rs})
			ctx.Set("i1", 1)
			ctx.Set("idv", func(v interface{}) interface{} { return v })
			out, err := Render(c.src, ctx)
			if err != nil || out != c.want {
				return "", engine.Failf("args", "expected %q, got %q / %v", c.want, out, err)
			}
			return "invoked", nil
		})
	}
}

// c12Chain: the call's value is the function's first result and a non-nil trailing error fails the render,
// also when a path (field, method, index) continues from the call, in every statement form.
func c12Chain(t *engine.T) {
	tails := []struct{ src, want string }{
		{"", ""}, {".Name", "N"}, {".Hello()", "hello N"}, {".Kid.Name", "K"}, {".Tags[1]", "t1"}, {".Kids[0].Name", "K0"}, {".Self().Name", "N"}, {`.Attrs["k"]`, "v"},
	}
	forms := []struct{ name, pre, post string }{
		{"emit", "A<%= ", " %>B"},
		{"let", "A<% let r = ", " %><%= r %>B"},
		{"condition", "A<%= if ((", `) != "zzz") { %>`}, // the path is parenthesised: an operator directly after a call path does not parse
		{"argument", "A<%= idv(", ") %>B"},
		{"concat", `A<%= "" + `, " %>B"},
		{"array-element", "A<%= [", "][0] %>B"},
		{"in-loop", "A<%= for (i) in [1] { %><%= ", " %><% } %>B"},
		{"in-fn", "A<% let g = fn() { return ", " } %><%= g() %>B"},
	}
	for _, fails := range []bool{false, true} {
		for _, callee := range []string{"find(w(0, \"x\"))", "holder.Find(w(0, \"x\"))", "find2(w(0, \"x\"), w(1, 2))"} {
			for _, tl := range tails {
				for _, fm := range forms {
					if tl.src == "" && fm.name != "emit" && fm.name != "let" {
						continue
					}
					expr := callee + tl.src
					src := fm.pre + expr + fm.post
					want := "A" + tl.want + "B"
					if fm.name == "condition" {
						src = fm.pre + expr + fm.post + tl.want + `<% } %>B`
					}
					if tl.src == "" {
						want = "AB" // a struct pointer prints nothing
					}
					fails := fails
					nargs := strings.Count(callee, "w(")
					t.Case(fmt.Sprintf("chain fails=%v %s", fails, q(src)), true, func() (string, *engine.Fail) {
						calls := 0
						var log []int
						p := &Person{Name: "N", Kid: &Person{Name: "K"}, Tags: []string{"t0", "t1"}, Kids: []Person{{Name: "K0"}}, Attrs: map[string]string{"k": "v"}}
						find := func(s string) (*Person, error) {
							calls++
							if fails {
								return p, ErrSentinel // a value is returned together with the error: it must not be used
							}
							return p, nil
						}
						ctx := plush.NewContext()
						ctx.Set("find", find)
						ctx.Set("find2", func(s string, n int) (*Person, error) { return find(s) })
						ctx.Set("holder", c12Holder{find})
						ctx.Set("w", func(i int, v interface{}) interface{} { log = append(log, i); return v })
						ctx.Set("idv", func(v interface{}) interface{} { return v })
						out, err := Render(src, ctx)
						if f := Totality(out, err); f != nil {
							return "", f
						}
						if calls != 1 {
							return "", engine.Failf("invoked", "the function was invoked %d times, expected once", calls)
						}
						if len(log) != nargs {
							return "", engine.Failf("arg-evaluation", "arguments evaluated %v, expected each of %d once", log, nargs)
						}
						if fails {
							if err == nil {
								return "", engine.Failf("error-ignored", "the function returned a non-nil error but Render succeeded with %q", out)
							}
							if !errors.Is(err, ErrSentinel) {
								return "", engine.Failf("error-not-wrapped", "the render error does not wrap the function's error: %v", err)
							}
							return "error", nil
						}
						if err != nil || out != want {
							return "", engine.Failf("mismatch", "expected %q, got %q / %v", want, out, err)
						}
						return "value", nil
					})
				}
			}
		}
	}
}

// c12Rec: a method on an indexed receiver, called with arguments that mention the indexed variable itself
type c12Rec struct{ ID int }

func (r *c12Rec) Seen(v interface{}) string {
	switch x := v.(type) {
	case []*c12Rec:
		return fmt.Sprintf("%d sees list%d", r.ID, len(x))
	case map[string]*c12Rec:
		return fmt.Sprintf("%d sees map%d", r.ID, len(x))
	case *c12Rec:
		return fmt.Sprintf("%d sees rec%d", r.ID, x.ID)
	case int:
		return fmt.Sprintf("%d sees int%d", r.ID, x)
	}
	return fmt.Sprintf("%d sees %T", r.ID, v)
}

func (r *c12Rec) Two(a, b interface{}) string { return r.Seen(a) + "+" + r.Seen(b) }

type c12Holder struct {
	f func(string) (*Person, error)
}

func (h c12Holder) Find(s string) (*Person, error) { return h.f(s) }

// c12Blocks: several helper calls with blocks inside one statement - every call's helper context carries that
// call's own whole block, whatever the blocks of the calls evaluated before it did (ended in break / continue, failed
// softly, were never run).
func c12Blocks(t *engine.T) {
	for _, ctl := range []string{"", "continue", "break"} {
		for _, second := range []struct{ body, text string }{{`b<%= x %>c`, "b%dc"}, {`<% let q9 = x %>b<%= q9 %>c<%= q9 %>`, "b%dc%d"}, {`b`, "b"}, {`<%= if (true) { %>b<% } %><%= x %>`, "b%d"}} {
			for _, h2 := range []string{"wrap", "wrapi", "wrapw", "wrapo"} {
				for _, form := range []string{"pair", "array", "three", "nested", "infix"} {
					ctl, second, h2, form := ctl, second, h2, form
					first := `a<% ` + ctl + ` %>z`
					firstText := "a"
					if ctl == "" {
						first, firstText = `az`, "az"
					}
					call2 := h2 + `() { %>` + second.body + `<% }`
					if h2 == "wrapo" {
						call2 = h2 + `({"k": 1}) { %>` + second.body + `<% }`
					}
					var stmt string
					switch form {
					case "pair":
						stmt = `<%= pair(wrap() { %>` + first + `<% }, ` + call2 + `) %>`
					case "array":
						stmt = `<%= [wrap() { %>` + first + `<% }, "+", ` + call2 + `] %>`
					case "three":
						stmt = `<%= pair(wrap() { %>` + first + `<% }, pair(` + call2 + `, ` + call2 + `)) %>`
					case "nested":
						stmt = `<%= pair(wrap() { %><%= wrap() { %>` + first + `<% } %><% }, ` + call2 + `) %>`
					case "infix":
						stmt = `<%= "" + wrap() { %>` + first + `<% } + "+" + ` + call2 + ` %>`
					}
					src := `<%= for (x) in xs { %>` + stmt + `;<% } %>`
					t.Case("blocks "+q(src), true, func() (string, *engine.Fail) {
						var got []string
						ctx := plush.NewContext()
						ctx.Set("xs", []int{1, 2})
						rec := func(s string, err error) (template.HTML, error) { got = append(got, s); return template.HTML(s), err }
						ctx.Set("wrap", func(help plush.HelperContext) (template.HTML, error) { return rec(help.Block()) })
						ctx.Set("wrapi", func(opts map[string]interface{}, help hctx.HelperContext) (template.HTML, error) {
							return rec(help.Block())
						})
						ctx.Set("wrapw", func(help plush.HelperContext) (template.HTML, error) { return rec(help.BlockWith(help.New())) })
						ctx.Set("wrapo", func(opts map[string]interface{}, help plush.HelperContext) (template.HTML, error) {
							if opts["k"] != 1 {
								return "", fmt.Errorf("options map not passed: %v", opts)
							}
							return rec(help.Block())
						})
						ctx.Set("pair", func(a, b template.HTML) template.HTML { return a + "+" + b })
						out, err := Render(src, ctx)
						if err != nil {
							return "", engine.Failf("block", "unexpected error %v", err)
						}
						iters := 2
						if ctl == "break" {
							iters = 1
						}
						var want []string
						var wout strings.Builder
						for x := 1; x <= iters; x++ {
							b2 := second.text
							if n := strings.Count(b2, "%d"); n == 1 {
								b2 = fmt.Sprintf(b2, x)
							} else if n == 2 {
								b2 = fmt.Sprintf(b2, x, x)
							}
							switch form {
							case "three":
								want = append(want, firstText, b2, b2)
								wout.WriteString(firstText + "+" + b2 + "+" + b2)
							case "nested":
								want = append(want, firstText, firstText, b2)
								wout.WriteString(firstText + "+" + b2)
							default:
								want = append(want, firstText, b2)
								wout.WriteString(firstText + "+" + b2)
							}
							if ctl == "" {
								wout.WriteString(";")
							}
						}
						if strings.Join(got, "|") != strings.Join(want, "|") {
							return "", engine.Failf("block", "the helpers' blocks rendered %q, expected %q (output %q)", got, want, out)
						}
						if out != wout.String() {
							return "", engine.Failf("block", "expected output %q, got %q", wout.String(), out)
						}
						return "blocks", nil
					})
				}
			}
		}
	}
}

type c12Box struct{ rec *[]bool }

func (b c12Box) Items(n int, hc plush.HelperContext) []int {
	*b.rec = append(*b.rec, hc.HasBlock())
	return []int{n, n + 1}
}

func (b c12Box) ItemsI(n int, hc hctx.HelperContext) []int {
	*b.rec = append(*b.rec, hc.HasBlock())
	return []int{n, n + 1}
}

func (b c12Box) Self(n int) c12Box { return b }

// c12NoBlock: a call that is followed by the brace of the statement it is part of (a loop's iterable, a condition)
// has no block of its own: its helper context says so - the body belongs to the loop / the if.
func c12NoBlock(t *engine.T) {
	for _, src := range []string{
		`<%= for (x) in box.Items(2) { %>[<%= x %>]<% } %>`, `<%= for (x) in box.ItemsI(2) { %>[<%= x %>]<% } %>`, `<%= for (x) in items(2) { %>[<%= x %>]<% } %>`,
		`<%= for (x) in mk(1).Items(2) { %>[<%= x %>]<% } %>`, `<%= for (x) in mk(1).ItemsI(2) { %>[<%= x %>]<% } %>`, `<%= for (x) in box.Self(1).Items(2) { %>[<%= x %>]<% } %>`,
		`<%= for (x) in boxes[0].Items(2) { %>[<%= x %>]<% } %>`, `<%= for (x) in box.Self(1).Self(2).ItemsI(2) { %>[<%= x %>]<% } %>`,
		`<%= if (has(1)) { %>y<% } %>`, `<%= if (false) { %>n<% } else if (has(1)) { %>y<% } %>`, `<%= if (box.Self(1).Items(2)) { %>y<% } %>`, `<%= if (mk(1).Items(2)) { %>y<% } %>`,
		`<% let f = fn() { return has(1) } %><%= if (f()) { %>y<% } %>`, `<%= for (x) in [1] { %><%= for (y) in box.Items(x) { %>[<%= y %>]<% } %><% } %>`,
	} {
		src := src
		t.Case("no-block "+q(src), true, func() (string, *engine.Fail) {
			var rec []bool
			ctx := plush.NewContext()
			ctx.Set("box", c12Box{&rec})
			ctx.Set("boxes", []c12Box{{&rec}})
			ctx.Set("mk", func(n int) c12Box { return c12Box{&rec} })
			ctx.Set("items", func(n int, hc plush.HelperContext) []int { rec = append(rec, hc.HasBlock()); return []int{n} })
			ctx.Set("has", func(n int, hc hctx.HelperContext) bool { rec = append(rec, hc.HasBlock()); return true })
			out, err := Render(src, ctx)
			for _, hb := range rec {
				if hb {
					return "", engine.Failf("block", "a call without a block of its own was given a helper context with HasBlock() == true (rendered %q / %v)", out, err)
				}
			}
			if err != nil {
				return "rejected", nil
			}
			if len(rec) == 0 {
				return "", engine.Failf("block", "rendered %q without invoking the function", out)
			}
			return "no-block", nil
		})
	}
}
