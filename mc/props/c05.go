package props

import (
	"errors"
	"fmt"
	"html/template"
	"os"
	"sort"
	"strings"

	"verifmc/engine"

	plush "github.com/gobuffalo/plush/v5"
)

// C05 — no silent failure.

type c05Env struct {
	partials map[string]string
	reached  bool
	n        int
}

type c05Failer struct{ env *c05Env }

func (f c05Failer) Fail() (string, error)          { f.env.reached = true; return "", ErrSentinel }
func (f c05Failer) Echo(v interface{}) interface{} { return v }
func (f c05Failer) FailP() (Person, error) {
	f.env.reached = true
	return Person{Name: "zero"}, ErrSentinel
}

func (e *c05Env) context() *plush.Context {
	c := plush.NewContext()
	c.Set("q0", 0)
	c.Set("one", []int{7})
	c.Set("fail", func() (string, error) { e.reached = true; return "partial", ErrSentinel })
	c.Set("vjoin", func(parts ...interface{}) string { return fmt.Sprint(parts...) })
	c.Set("failE", func() error { e.reached = true; return ErrSentinel })
	c.Set("failP", func() (Person, error) {
		e.reached = true
		return Person{Name: "zero", Tags: []string{"t"}}, ErrSentinel
	})
	c.Set("failL", func() ([]Person, error) { e.reached = true; return []Person{{Name: "zero"}}, ErrSentinel })
	c.Set("failPtr", func() (string, *c05PErr) { e.reached = true; return "partial", &c05PErr{} })
	c.Set("failIface", func() (string, c05AppError) { e.reached = true; return "partial", &c05PErr{} })
	c.Set("failAny", func() (string, interface{}) { e.reached = true; return "partial", ErrSentinel })
	c.Set("mark", func(v interface{}) interface{} { e.reached = true; return v })
	c.Set("ident", func(v interface{}) interface{} { return v })
	c.Set("rnd", func(s string, help plush.HelperContext) (template.HTML, error) {
		out, err := help.Render(s)
		return template.HTML(out), err
	})
	c.Set("st", c05Failer{e})
	c.Set("pst", &Person{Name: "P"})
	c.Set("vst", Person{Name: "V"})
	c.Set("blk", func(help plush.HelperContext) (template.HTML, error) {
		s, err := help.Block()
		return template.HTML("{" + s + "}"), err
	})
	c.Set("partialFeeder", func(name string) (string, error) {
		if s, ok := e.partials[name]; ok {
			return s, nil
		}
		return "", fmt.Errorf("no partial %q", name)
	})
	return c
}

func (e *c05Env) partial(body string) string {
	e.n++
	name := fmt.Sprintf("dyn%d", e.n)
	e.partials[name] = body
	return name
}

type c05Atom struct {
	name, src string
	kind      string // sentinel | op | unknown | mustfail
}

var c05Atoms = []c05Atom{
	{"helper(T,err)", `fail()`, "sentinel"},
	{"helper(err)", `failE()`, "sentinel"},
	{"method(T,err)", `st.Fail()`, "sentinel"},
	{"chain-field-on-failing-helper", `(failP().Name)`, "sentinel"},
	{"chain-method-on-failing-helper", `(failP().Hello())`, "sentinel"},
	{"chain-index-on-failing-helper", `(failP().Tags[0])`, "sentinel"},
	{"chain-on-failing-method", `(st.FailP().Name)`, "sentinel"},
	{"index-member-on-failing", `(failL()[0].Name)`, "sentinel"},
	{"int+string", `(1 + mark("a"))`, "op"},
	{"index-out-of-range", `one[mark(9)]`, "op"},
	{"div-by-zero", `(1 / mark(0))`, "op"},
	{"unknown-ident", `nope`, "unknown"},
	{"unknown-func-call", `nope()`, "mustfail"},
	// a path under an unknown identifier is not an identifier: it is a real failure in every context
	{"unknown-path", `nope.Name`, "mustfail"},
	{"unknown-path-2", `nope.Kid.Name`, "mustfail"},
	{"unknown-arg", `ident(nope)`, "mustfail"},
	{"missing-method-on-pointer", `pst.Nope()`, "mustfail"},
	{"missing-method-on-value", `vst.Nope()`, "mustfail"},
	{"missing-method-with-args", `pst.Nope(1, "x")`, "mustfail"},
	{"partial-with-unknown-ident", `partial("pnope")`, "mustfail"},
	{"partial-with-layout-failing-body", `partial("pfail", {"layout": "lay"})`, "sentinel"},
	{"partial-with-layout-unknown-ident-in-body", `partial("pnope", {"layout": "lay"})`, "mustfail"},
	{"partial-with-failing-layout", `partial("pok", {"layout": "layfail"})`, "sentinel"},
	{"partial-with-layout-unknown-ident-in-layout", `partial("pok", {"layout": "laynope"})`, "mustfail"},
	{"partial-failing-body-no-layout", `partial("pfail")`, "sentinel"},
	{"nested-partial-with-layout-failing-body", `partial("pnest", {"layout": "lay"})`, "sentinel"},
	{"render-with-unknown-ident", `rnd("<%= nope %>")`, "mustfail"},
	// the error result is declared as something else than error: a pointer type, an application interface, interface{}
	{"helper(T,*E)", `failPtr()`, "sentinel"},
	{"helper(T,AppError)", `failIface()`, "sentinel"},
	{"helper(T,interface{})", `failAny()`, "sentinel"},
	// a failing partial that is JavaScript-escaped on the way (content type given with the data), with and without a layout
	{"js-escaped-partial-failing-body", `partial("pfail.html", {"contentType": "text/javascript"})`, "sentinel"},
	{"js-escaped-partial-with-layout-failing-body", `partial("pfail.html", {"contentType": "application/javascript", "layout": "lay.html"})`, "sentinel"},
}

type c05Expr struct {
	name, pre, post string
	tolerant        bool // tolerates an unknown identifier placed directly in the hole
	anyValue        bool // evaluates without a type error of its own whatever the hole's value is
}

var c05Exprs = func() []c05Expr {
	var l []c05Expr
	for _, op := range []string{"+", "-", "*", "/", "<", "<=", ">", ">=", "~="} {
		l = append(l, c05Expr{"L" + op, "(", " " + op + " 1)", false, false})
		l = append(l, c05Expr{"R" + op, "(1 " + op + " ", ")", false, false})
	}
	for _, op := range []string{"==", "!="} {
		l = append(l, c05Expr{"L" + op, "(", " " + op + " 1)", true, true})
		l = append(l, c05Expr{"R" + op, "(1 " + op + " ", ")", true, false}) // int == bool is a type error
	}
	l = append(l,
		c05Expr{"L&&", "(", " && true)", true, true},
		c05Expr{"R&&", "(true && ", ")", true, true},
		c05Expr{"L||", "(", " || false)", true, true},
		c05Expr{"R||", "(false || ", ")", true, true},
		c05Expr{"!", "!", "", true, true},
		c05Expr{"array-elem", "[1, ", "][1]", false, true},
		c05Expr{"hash-value", `{"a": `, `}["a"]`, false, true},
		c05Expr{"index-container", "", "[0]", false, false},
		c05Expr{"index", "one[", "]", false, false},
		c05Expr{"go-arg", "ident(", ")", false, true},
		c05Expr{"go-arg2", `ident2("x", `, ")", false, true},
		c05Expr{"userfn-arg", "uf(", ")", false, true},
		c05Expr{"userfn-first-of-two", "uf2(", `, "ok")`, false, true},
		c05Expr{"userfn-second-of-two", `uf2("ok", `, ")", false, true},
		c05Expr{"userfn-middle-of-three", `uf3("a", `, `, "c")`, false, true},
		c05Expr{"method-arg", "st.Echo(", ")", false, true},
		c05Expr{"variadic-arg-first", "vjoin(", `, "c")`, false, true},
		c05Expr{"variadic-arg-middle", `vjoin("a", `, `, "c")`, false, true},
		c05Expr{"variadic-arg-last", `vjoin("a", "b", `, ")", false, true},
	)
	return l
}()

type c05Stmt struct {
	name, pre, post string
	tolerant        bool
	anyValue        bool
}

var c05Stmts = []c05Stmt{
	{"emit", `<%= `, ` %>`, false, true},
	{"silent", `<% `, ` %>`, false, true},
	{"let", `<% let z = `, ` %>`, false, true},
	{"assign", `<% q0 = `, ` %>`, false, true},
	{"if-cond", `<%= if (`, `) { %>T<% } else { %>F<% } %>`, true, true},
	{"silent-if-cond", `<% if (`, `) { %>T<% } %>`, true, true},
	{"elseif-cond", `<%= if (false) { %>a<% } else if (`, `) { %>b<% } %>`, true, true},
	{"for-iter", `<%= for (v) in `, ` { %>x<% } %>`, false, false},
	{"return", `<%= if (true) { return `, ` } %>`, false, true},
	{"fn-return", `<% let g = fn() { return `, ` } %><%= g() %>`, false, true},
	{"partial-data", `<%= partial("pw", {"w": `, `}) %>`, false, true},
	{"contentOf-data", `<% contentFor("cc") { %>c<% } %><%= contentOf("cc", {"n": `, `}) %>`, false, true},
}

type c05Wrap struct {
	name string
	wrap func(e *c05Env, inner string) string
}

var c05Wraps = []c05Wrap{
	{"top", func(e *c05Env, in string) string { return in }},
	{"if", func(e *c05Env, in string) string { return `<%= if (true) { %>` + in + `<% } %>` }},
	{"else", func(e *c05Env, in string) string { return `<%= if (false) { %>n<% } else { %>` + in + `<% } %>` }},
	{"for", func(e *c05Env, in string) string { return `<%= for (v) in one { %>` + in + `<% } %>` }},
	{"fn", func(e *c05Env, in string) string { return `<% let ff = fn() { %>` + in + `<% } %><%= ff() %>` }},
	{"for-iterator", func(e *c05Env, in string) string { return `<%= for (v) in range(1, 1) { %>` + in + `<% } %>` }},
	{"for-map", func(e *c05Env, in string) string { return `<%= for (k, v) in {"k": 1} { %>` + in + `<% } %>` }},
	{"helper-block", func(e *c05Env, in string) string { return `<%= blk() { %>` + in + `<% } %>` }},
	{"contentFor", func(e *c05Env, in string) string {
		return `<% contentFor("cf") { %>` + in + `<% } %>mid<%= contentOf("cf") %>`
	}},
	{"contentOf-default", func(e *c05Env, in string) string { return `<%= contentOf("undefined-name") { %>` + in + `<% } %>` }},
	{"contentFor-used-with-default", func(e *c05Env, in string) string {
		return `<% contentFor("cfd") { %>` + in + `<% } %>mid<%= contentOf("cfd") { %>DEFAULT<% } %>`
	}},
	{"contentFor-used-with-data", func(e *c05Env, in string) string {
		return `<% contentFor("cfx") { %>` + in + `<% } %>mid<%= contentOf("cfx", {"k": 1}) %>`
	}},
	{"partial", func(e *c05Env, in string) string { return `<%= partial("` + e.partial(in) + `") %>` }},
	{"layout", func(e *c05Env, in string) string {
		lay := e.partial(`L[` + in + `<%= yield %>]`)
		body := e.partial("body")
		return `<%= partial("` + body + `", {"layout": "` + lay + `"}) %>`
	}},
}

const c05Prelude = `<% let uf = fn(a) { return a } %><% let uf2 = fn(a, b) { return b } %><% let uf3 = fn(a, b, c) { return a } %>`

func init() {
	engine.Register(&engine.Prop{
		ID: "C05",
		Shards: func(th bool) []string {
			s := []string{"special"}
			for i := range c05Wraps {
				if th {
					for j := range c05Wraps {
						s = append(s, fmt.Sprintf("%d.%d", i, j))
					}
				} else {
					s = append(s, fmt.Sprintf("%d", i))
				}
			}
			return s
		},
		Run:  c05Run,
		Rule: "compositions wrapper^d ∘ statement-form ∘ expression-context^e ∘ failing-atom framed by literal text A…B: 14 block wrappers (top, if, else, for over a slice / an Iterator / a map, fn body, helper block, contentFor→contentOf plain / with a default block / with data, contentOf default block, partial body, layout), 12 statement forms (emit, silent, let, assign, if/else-if condition, for iterable, return, partial/contentOf data), 38 expression contexts (each operand side of all 13 binary operators, !, array/hash element, index container/index, Go-helper/user-fn/method argument), 24 failing atoms (helper returning (T,err)/(err) and (T,*E) / (T,AppError) / (T,interface{}), a failing partial that is JavaScript-escaped on the way, method returning (T,err), failing helper/method as head of a .field/.method()/[i] chain, type error, index out of range, division by zero — each with a recording call so 'reached' is measured — unknown identifier, unknown function, unknown identifier as argument, unknown identifier inside a partial / a helper-rendered template, a method that does not exist on a pointer / value receiver). Oracle when the failing site was reached: err != nil, output empty, errors.Is(err, sentinel) for helper failures; an unknown identifier is tolerated exactly as direct condition or direct operand of ! == != && || and fails everywhere else. (special) failing statements inside the blocks of the built-in block helpers (htmlEscape with / without an argument, contentOf default block, contentFor + contentOf) and block helpers that fail themselves after their block ended with break / continue; one call node evaluated with callees of different signatures (loop over a mixed slice of functions, consecutive executions with the helper rebound): the failing one fails the render; assignments that cannot be carried out (to a field path, with or without a variable named like its last segment, nested, inside a block / function; to unknown variables; out of range) fail the render. Non-trivial: the failing site was reached (counted).",
		Bound: func(th bool) string {
			if th {
				return "d<=2 wrappers, e<=2 expression contexts"
			}
			return "d<=1 wrapper, e<=2 expression contexts (e=2 only for top/if/for/fn wrappers)"
		},
	})
}

func c05Run(t *engine.T, shard string) {
	if shard == "special" {
		c05Special(t)
		return
	}
	var wi, wj = -1, -1
	if strings.Contains(shard, ".") {
		fmt.Sscanf(shard, "%d.%d", &wi, &wj)
	} else {
		fmt.Sscan(shard, &wi)
	}
	deep := t.Thorough || wi == 0 || wi == 1 || wi == 3 || wi == 4 || wi == 5
	for _, st := range c05Stmts {
		for _, at := range c05Atoms {
			c05One(t, wi, wj, st, nil, at)
			for i := range c05Exprs {
				c05One(t, wi, wj, st, []*c05Expr{&c05Exprs[i]}, at)
				if deep {
					for j := range c05Exprs {
						c05One(t, wi, wj, st, []*c05Expr{&c05Exprs[i], &c05Exprs[j]}, at)
					}
				}
			}
		}
	}
}

// exprs[0] is the outermost expression context.
func c05One(t *engine.T, wi, wj int, st c05Stmt, exprs []*c05Expr, at c05Atom) {
	expr := at.src
	for k := len(exprs) - 1; k >= 0; k-- {
		expr = exprs[k].pre + expr + exprs[k].post
	}
	// expectation for the unknown identifier
	expect := "fail"
	if at.kind == "unknown" {
		// direct context of the identifier
		directTolerant := st.tolerant
		if len(exprs) > 0 {
			directTolerant = exprs[len(exprs)-1].tolerant
		}
		if directTolerant {
			// tolerated: value nil/bool flows outward; only predictable if everything
			// outside accepts any value
			ok := st.anyValue
			for k := 0; k < len(exprs)-1; k++ {
				ok = ok && exprs[k].anyValue
			}
			if !ok {
				return
			}
			expect = "ok"
		}
	}
	names := make([]string, len(exprs))
	for i, e := range exprs {
		names[i] = e.name
	}
	desc := fmt.Sprintf("wrap=%s", c05Wraps[wi].name)
	if wj >= 0 {
		desc += "+" + c05Wraps[wj].name
	}
	desc += fmt.Sprintf(" stmt=%s ctx=%s atom=%s expr=%s", st.name, strings.Join(names, ">"), at.name, expr)
	build := func(e *c05Env) string {
		inner := st.pre + expr + st.post
		if wj >= 0 {
			inner = c05Wraps[wj].wrap(e, inner)
		}
		inner = c05Wraps[wi].wrap(e, inner)
		return c05Prelude + "A" + inner + "B"
	}
	t.Case(desc, true, func() (string, *engine.Fail) {
		e := &c05Env{partials: map[string]string{"pw": "[<%= w %>]", "pnope": "<%= nope %>", "pfail": "a<%= fail() %>b", "pok": "ok", "lay": "<l><%= yield %></l>", "layfail": "<l><%= fail() %><%= yield %></l>", "laynope": "<l><%= yield %><%= nope %></l>", "pnest": `<%= partial("pfail", {"layout": "lay"}) %>`, "pfail.html": "a<%= fail() %>b", "lay.html": "<l><%= yield %></l>"}}
		src := build(e)
		ctx := e.context()
		ctx.Set("ident2", func(a string, v interface{}) interface{} { return v })
		out, err := Render(src, ctx)
		if f := Totality(out, err); f != nil {
			return "", f
		}
		switch at.kind {
		case "sentinel", "op":
			if !e.reached {
				if err == nil {
					return "", engine.Failf("harness", "failing site not reached but render succeeded: %q -> %q", src, out)
				}
				if os.Getenv("C05_DEBUG") != "" {
					fmt.Fprintf(os.Stderr, "NOT-REACHED %s :: %v\n", desc, err)
				}
				return "not-reached", nil
			}
			t.Count("failing_site_reached", 1)
			if err == nil {
				return "", engine.Failf("swallowed", "failing site was reached but Render succeeded with %q (template %q)", out, src)
			}
			if at.kind == "sentinel" && !errors.Is(err, ErrSentinel) {
				return "", engine.Failf("not-wrapped", "error does not wrap the helper's error (errors.Is false): %v (template %q)", err, src)
			}
			return "failed-as-required", nil
		case "mustfail":
			if err == nil {
				return "", engine.Failf("swallowed", "%s must fail the render, got %q (template %q)", at.name, out, src)
			}
			return "failed-as-required", nil
		default: // unknown identifier
			if expect == "ok" {
				if err != nil {
					return "", engine.Failf("not-tolerated", "unknown identifier in a tolerated position failed: %v (template %q)", err, src)
				}
				return "tolerated", nil
			}
			if err == nil {
				return "", engine.Failf("swallowed", "unknown identifier outside the tolerated positions rendered %q (template %q)", out, src)
			}
			return "failed-as-required", nil
		}
	})
}

// c05Special: operations that cannot be carried out fail the render - they are never carried out on
// something else instead.
func c05Special(t *engine.T) {
	// failures in and around helper blocks: a failing statement inside the block of a built-in block helper, and a
	// block helper that fails itself after its block ended with break / continue
	blocks := []string{
		`A<%= htmlEscape("x") { %>t<%= fail() %>u<% } %>B`, `A<%= htmlEscape("") { %>t<%= fail() %><% } %>B`, `A<%= htmlEscape() { %><%= fail() %><% } %>B`,
		`A<% let q = htmlEscape("x") { %><%= fail() %><% } %>B`, `A<%= contentOf("undefined") { %><%= fail() %><% } %>B`, `A<%= contentOf("undefined", {"a": 1}) { %><%= fail() %><% } %>B`,
		`A<% contentFor("cf") { %><%= fail() %><% } %><%= contentOf("cf") %>B`, `A<% contentFor("cf") { %><%= fail() %><% } %><%= contentOf("cf") { %>default<% } %>B`,
		`A<%= for (x) in one { %><%= failafter() { %>t<% break %>u<% } %>z<% } %>B`, `A<%= for (x) in one { %><%= failafter() { %>t<% if (true) { continue } %>u<% } %>z<% } %>B`,
		`A<%= for (x) in one { %><% failafter() { %><% break %><% } %><% } %>B`, `A<%= for (x) in one { %><%= failafter() { %>t<% } %>z<% } %>B`, `A<%= failafter() { %>t<% } %>B`,
		`A<%= for (x) in one { %><%= blk() { %><%= failafter() { %><% break %><% } %><% } %><% } %>B`,
		// helper blocks nested two and three deep, built-in and application helpers mixed
		`A<%= htmlEscape("") { %>b<%= htmlEscape("") { %>c<%= fail() %>d<% } %>e<% } %>B`, `A<%= blk() { %><%= blk() { %><%= fail() %><% } %><% } %>B`,
		`A<%= blk() { %>x<%= htmlEscape("") { %><%= blk() { %><%= fail() %><% } %><% } %>y<% } %>B`, `A<% contentFor("cn") { %><%= fail() %><% } %><%= htmlEscape("") { %><%= contentOf("cn") %><% } %>B`,
		`A<%= blk() { %><%= if (true) { %><%= blk() { %><%= for (x) in one { %><%= fail() %><% } %><% } %><% } %><% } %>B`, `A<%= blk() { %><% let q = blk() { %><%= fail() %><% } %><% } %>B`,
	}
	for _, src := range blocks {
		src := src
		t.Case("special block "+q(src), true, func() (string, *engine.Fail) {
			e := &c05Env{partials: map[string]string{}}
			ctx := e.context()
			ctx.Set("failafter", func(help plush.HelperContext) (string, error) {
				if help.HasBlock() {
					if _, err := help.Block(); err != nil {
						return "", err
					}
				}
				return "never", ErrSentinel
			})
			ctx.Set("blk", func(help plush.HelperContext) (string, error) { return help.Block() })
			out, err := Render(src, ctx)
			if err == nil {
				return "", engine.Failf("swallowed", "a helper returned an error but Render succeeded with %q", out)
			}
			if !errors.Is(err, ErrSentinel) || out != "" {
				return "", engine.Failf("not-wrapped", "error %v / output %q", err, out)
			}
			return "failed-as-required", nil
		})
	}
	// every built-in helper called with a block that holds a failing call, under a few argument lists: whether the
	// helper runs its block is its own business, but when the failing call was invoked the render fails
	var names []string
	for name := range plush.Helpers.All() {
		names = append(names, name)
	}
	sort.Strings(names)
	for _, name := range names {
		for _, args := range []string{``, `"x"`, `"x", {}`, `"x", "y"`, `one`, `3`} {
			for _, body := range []string{`<%= fail() %>`, `t<%= if (true) { %><%= fail() %><% } %>u`, `<% let z = fail() %>`} {
				for _, form := range []string{`A<%= %s(%s) { %%>%s<%% } %%>B`, `A<%% let r = %s(%s) { %%>%s<%% } %%>B`} {
					src := fmt.Sprintf(form, name, args, body)
					t.Case("special built-in with block "+q(src), true, func() (string, *engine.Fail) {
						e := &c05Env{partials: map[string]string{"x": "P"}}
						out, err := Render(src, e.context())
						if !e.reached {
							return "block-not-run", nil
						}
						if err == nil {
							return "", engine.Failf("swallowed", "a helper inside the block was invoked and returned an error but Render succeeded with %q", out)
						}
						if !errors.Is(err, ErrSentinel) || out != "" {
							return "", engine.Failf("not-wrapped", "error %v / output %q", err, out)
						}
						return "failed-as-required", nil
					})
				}
			}
		}
	}
	cases := []struct{ name, src string }{
		{"assignment to a field path", `A<% let Name = "a" %><% st.Name = "b" %>B<%= Name %>`},
		{"assignment to a field path, no such variable", `A<% st.Name = "b" %>B`},
		{"assignment to a nested field path", `A<% let Name = "a" %><% pst.Kid.Name = "b" %>B<%= Name %>`},
		{"assignment to a field path inside a block", `A<% let Name = "a" %><%= if (true) { %><% st.Name = "b" %>x<% } %>B<%= Name %>`},
		{"assignment to a field path inside a function", `A<% let Name = "a" %><% let f = fn() { st.Name = "b"
 return Name } %><%= f() %>B`},
		{"assignment to an unknown variable", `A<% zz = 1 %>B`},
		{"assignment to an index of an unknown variable", `A<% zz[0] = 1 %>B`},
		{"assignment to an index out of range", `A<% one[5] = 1 %>B`},
	}
	// one call node, callees of different signatures: the failing one fails the render whatever ran before it
	okS := func() string { return "a" }
	okSE := func() (string, error) { return "b", nil }
	bad := func() (string, error) { return "c", ErrSentinel }
	badE := func() error { return ErrSentinel }
	seqs := []struct {
		name string
		fs   []interface{}
	}{
		{"string then (string, error)", []interface{}{okS, bad}}, {"(string, nil) then (string, error)", []interface{}{okSE, bad}},
		{"string twice then error", []interface{}{okS, okS, badE}}, {"(string, error) first", []interface{}{bad, okS}},
		{"string, (string, nil), string, (string, error)", []interface{}{okS, okSE, okS, bad}},
	}
	for _, sq := range seqs {
		sq := sq
		for _, form := range []string{`A<%= for (f) in fs { %>[<%= f() %>]<% } %>B`, `A<%= for (f) in fs { %><% let r = f() %>[<%= r %>]<% } %>B`, `A<%= for (f) in fs { %>[<%= idv(f)() %>]<% } %>B`} {
			form := form
			t.Case("special one call node "+sq.name+" "+q(form), true, func() (string, *engine.Fail) {
				e := &c05Env{partials: map[string]string{}}
				ctx := e.context()
				ctx.Set("fs", sq.fs)
				ctx.Set("idv", func(v interface{}) interface{} { return v })
				out, err := Render(form, ctx)
				if err == nil {
					return "", engine.Failf("swallowed", "a function of the sequence returned an error but Render succeeded with %q", out)
				}
				if !errors.Is(err, ErrSentinel) || out != "" {
					return "", engine.Failf("not-wrapped", "error %v / output %q", err, out)
				}
				return "failed-as-required", nil
			})
		}
		// the same through consecutive executions of one parsed template with the name rebound
		t.Case("special one call node, consecutive executions "+sq.name, true, func() (string, *engine.Fail) {
			plush.CacheEnabled = false
			tm, err := plush.NewTemplate(`A<%= h() %>B`)
			if err != nil {
				return "", engine.Failf("harness", "%v", err)
			}
			for i, f := range sq.fs {
				ctx := plush.NewContext()
				ctx.Set("h", f)
				out, err := tm.Exec(ctx)
				failing := i == len(sq.fs)-1
				if sq.name == "(string, error) first" {
					failing = i == 0
				}
				if failing && (err == nil || !errors.Is(err, ErrSentinel) || out != "") {
					return "", engine.Failf("swallowed", "execution %d: the helper returned an error, Exec returned %q / %v", i+1, out, err)
				}
				if !failing && err != nil {
					return "", engine.Failf("mismatch", "execution %d: unexpected error %v", i+1, err)
				}
			}
			return "failed-as-required", nil
		})
	}
	for _, c := range cases {
		c := c
		t.Case("special "+c.name+" "+q(c.src), true, func() (string, *engine.Fail) {
			e := &c05Env{partials: map[string]string{}}
			out, err := Render(c.src, e.context())
			if err == nil {
				return "", engine.Failf("swallowed", "the operation cannot be carried out but Render succeeded with %q", out)
			}
			if out != "" {
				return "", engine.Failf("partial-output", "error %v together with output %q", err, out)
			}
			return "failed-as-required", nil
		})
	}
}

// c05PErr is an application error type that wraps the sentinel; c05AppError an application interface embedding error.
type c05PErr struct{}

func (*c05PErr) Error() string { return "app error" }
func (*c05PErr) Unwrap() error { return ErrSentinel }
func (*c05PErr) Code() int     { return 7 }

type c05AppError interface {
	error
	Code() int
}
