package props

import (
	"context"
	"fmt"
	"reflect"
	"sort"
	"strings"

	"verifmc/engine"

	plush "github.com/gobuffalo/plush/v5"
)

// C10 — Context behaves as a chain of scopes for every history of New/Set/Value/Has.
// Explicit-state BFS: transitions call the real API; a successor is obtained by
// replaying the history on fresh objects plus one operation; the canonical state is
// the reference model's state; the full observation vector is compared in every state.

var c10Keys = []string{"a", "b", "len"}

var c10KeySets = map[string][]string{
	"std": {"a", "b", "len"},
	// names the engine itself uses for stored blocks, and the empty name, are keys like any other
	"alt": {"contentFor:x", "", "len"},
}

const (
	c10Unbound = iota
	c10One
	c10Two
	c10Nil
	c10Builtin
)

var c10ValNames = []string{"-", "1", "2", "nil", "BUILTIN"}

type c10Op struct {
	kind string // root | new | set
	i    int
	k    int
	v    int
}

func (o c10Op) String() string {
	switch o.kind {
	case "root":
		return fmt.Sprintf("root(%s)", []string{"NewContext", "NewContextWith({})", "NewContextWith({a:1})", "NewContextWith({len:1})", "NewContextWith({len:nil})", "NewContextWithContext(WithValue(a,2))", "NewContextWithContext(WithValue(b,1),WithValue(len,1))"}[o.i])
	case "new":
		return fmt.Sprintf("c%d.New()", o.i)
	case "wrap":
		return fmt.Sprintf("NewContextWithContext(c%d)", o.i)
	}
	return fmt.Sprintf("c%d.Set(%s,%s)", o.i, c10Keys[o.k], c10ValNames[o.v])
}

// model --------------------------------------------------------------------

type c10Ctx struct {
	parent int
	vars   [3]int
}

type c10Model struct {
	ctxs     []c10Ctx
	fallback [3]int // what the Go context wrapped by the root answers, asked last
}

func (m *c10Model) value(i, k int) int {
	for x := i; x >= 0; x = m.ctxs[x].parent {
		if v := m.ctxs[x].vars[k]; v != c10Unbound {
			return v
		}
	}
	if m.fallback[k] != c10Unbound {
		return m.fallback[k]
	}
	return c10Nil // no binding anywhere: nil
}

func (m *c10Model) has(i, k int) bool { return m.value(i, k) != c10Nil }

// bound: some context on the path to the root holds a binding for k (a binding to nil is a binding)
func (m *c10Model) bound(i, k int) bool {
	for x := i; x >= 0; x = m.ctxs[x].parent {
		if m.ctxs[x].vars[k] != c10Unbound {
			return true
		}
	}
	return false
}

func (m *c10Model) apply(o c10Op) {
	switch o.kind {
	case "root":
		c := c10Ctx{parent: -1}
		switch o.i {
		case 2:
			c.vars[0] = c10One
		case 3:
			c.vars[2] = c10One
		case 4:
			c.vars[2] = c10Nil
		case 5:
			m.fallback[0] = c10Two
		case 6:
			m.fallback[1] = c10One
			m.fallback[2] = c10One
		}
		m.ctxs = append(m.ctxs, c)
		// default helpers are injected only under names the user has not bound (a user's nil wins too)
		if !m.bound(0, 2) {
			m.ctxs[0].vars[2] = c10Builtin
		}
	case "new":
		m.ctxs = append(m.ctxs, c10Ctx{parent: o.i})
		n := len(m.ctxs) - 1
		if !m.bound(n, 2) { // the user's binding, also to nil, wins in all descendants
			m.ctxs[n].vars[2] = c10Builtin
		}
	case "wrap":
		// a fresh root whose wrapped Go context is ci: ci's chain is asked last; built-in helpers are injected
		// (the new root has no data of its own)
		m.ctxs = append(m.ctxs, c10Ctx{parent: o.i})
		m.ctxs[len(m.ctxs)-1].vars[2] = c10Builtin
	case "set":
		m.ctxs[o.i].vars[o.k] = o.v
	}
}

func (m *c10Model) key() string {
	var sb strings.Builder
	for _, c := range m.ctxs {
		fmt.Fprintf(&sb, "%d:%d%d%d|", c.parent, c.vars[0], c.vars[1], c.vars[2])
	}
	return sb.String()
}

// implementation ---------------------------------------------------------------

type c10Impl struct{ ctxs []*plush.Context }

var c10BuiltinLen = reflect.ValueOf(plush.Helpers.All()["len"]).Pointer()

func (im *c10Impl) apply(o c10Op) {
	switch o.kind {
	case "root":
		switch o.i {
		case 0:
			im.ctxs = append(im.ctxs, plush.NewContext())
		case 1:
			im.ctxs = append(im.ctxs, plush.NewContextWith(map[string]interface{}{}))
		case 2:
			im.ctxs = append(im.ctxs, plush.NewContextWith(map[string]interface{}{"a": 1}))
		case 3:
			im.ctxs = append(im.ctxs, plush.NewContextWith(map[string]interface{}{"len": 1}))
		case 4:
			im.ctxs = append(im.ctxs, plush.NewContextWith(map[string]interface{}{"len": nil}))
		case 5:
			im.ctxs = append(im.ctxs, plush.NewContextWithContext(context.WithValue(context.Background(), c10Keys[0], 2)))
		case 6:
			im.ctxs = append(im.ctxs, plush.NewContextWithContext(context.WithValue(context.WithValue(context.Background(), c10Keys[1], 1), c10Keys[2], 1)))
		}
	case "new":
		im.ctxs = append(im.ctxs, im.ctxs[o.i].New().(*plush.Context))
	case "wrap":
		im.ctxs = append(im.ctxs, plush.NewContextWithContext(im.ctxs[o.i]))
	case "set":
		var v interface{}
		switch o.v {
		case c10One:
			v = 1
		case c10Two:
			v = 2
		}
		im.ctxs[o.i].Set(c10Keys[o.k], v)
	}
}

func c10Observe(v interface{}) int {
	switch t := v.(type) {
	case nil:
		return c10Nil
	case int:
		if t == 1 {
			return c10One
		}
		if t == 2 {
			return c10Two
		}
	}
	rv := reflect.ValueOf(v)
	if rv.Kind() == reflect.Func && rv.Pointer() == c10BuiltinLen {
		return c10Builtin
	}
	return -1
}

func c10Ops(m *c10Model, maxCtx int) []c10Op {
	var ops []c10Op
	n := len(m.ctxs)
	for i := 0; i < n; i++ {
		for k := range c10Keys {
			for _, v := range []int{c10One, c10Two, c10Nil} {
				ops = append(ops, c10Op{"set", i, k, v})
			}
		}
	}
	if n < maxCtx {
		for i := 0; i < n; i++ {
			ops = append(ops, c10Op{"new", i, 0, 0})
		}
	}
	return ops
}

func c10HistString(h []c10Op) string {
	s := make([]string, len(h))
	for i, o := range h {
		s[i] = o.String()
	}
	return strings.Join(s, "; ")
}

// c10Check replays a history on fresh objects and on a fresh model and compares
// the complete observation vector.
func c10Check(h []c10Op) (string, *c10Model, *engine.Fail) {
	// Value and Has are operations of the history too: the history is also run with every context and key
	// read just before its last operation (reads must not change what later reads return)
	if len(h) > 1 {
		if _, _, f := c10CheckReads(h, true); f != nil {
			return "", nil, f
		}
	}
	return c10CheckReads(h, false)
}

func c10CheckReads(h []c10Op, readBeforeLast bool) (string, *c10Model, *engine.Fail) {
	m := &c10Model{}
	im := &c10Impl{}
	note := ""
	for n, o := range h {
		if readBeforeLast && n == len(h)-1 {
			note = " (every context and key was read before the last operation)"
			for i := range im.ctxs {
				for _, key := range c10Keys {
					im.ctxs[i].Value(key)
					im.ctxs[i].Has(key)
				}
			}
		}
		m.apply(o)
		im.apply(o)
	}
	for i := range m.ctxs {
		for k, key := range c10Keys {
			want := m.value(i, k)
			got := c10Observe(im.ctxs[i].Value(key))
			if got != want {
				return "", m, engine.Failf("mismatch", "after [%s]%s: c%d.Value(%q) = %v, model says %s", c10HistString(h), note, i, key, im.ctxs[i].Value(key), c10ValNames[want])
			}
			if im.ctxs[i].Has(key) != (want != c10Nil) {
				return "", m, engine.Failf("mismatch", "after [%s]%s: c%d.Has(%q) = %v, model says %v", c10HistString(h), note, i, key, im.ctxs[i].Has(key), want != c10Nil)
			}
		}
	}
	return "conforms", m, nil
}

func init() {
	engine.Register(&engine.Prop{
		ID: "C10",
		Shards: func(th bool) []string {
			// shard = root constructor x first operation
			s := []string{"deep"}
			for r := 0; r < 7; r++ {
				m := &c10Model{}
				m.apply(c10Op{"root", r, 0, 0})
				for j := range c10Ops(m, 4) {
					s = append(s, fmt.Sprintf("%d:%d", r, j))
					if r == 0 || r == 5 {
						s = append(s, fmt.Sprintf("%d:%d:alt", r, j))
					}
				}
			}
			return s
		},
		Run:  c10Run,
		Rule: "explicit-state breadth-first search over histories of {root constructor in 7 variants (NewContext, NewContextWith {} / {a:1} / {len:1} / {len:nil}, NewContextWithContext over a Go context that answers a / b and len - asked last, after every scope), ci.New() (<=4 contexts alive), ci.Set(k,v) with k in {a,b,len(built-in helper name)} (two roots also with the key names {contentFor:x, empty string, len}, one operation shallower) and v in {1,2,nil}}; every transition calls the real API (successor = shortest history replayed on fresh objects + one operation); states are deduplicated on the reference model's state (parent vector + bindings, contexts numbered in creation order); every history is run twice - as is, and with every context and key read (Value and Has) just before its last operation, since reads are operations of the history too; in EVERY state the complete observation vector (Value and Has of every context x key) of the implementation is compared with the model (nearest binding wins, a binding to nil is a binding, Has = value != nil, built-in helper injected at construction only under a name that is not bound - to anything, nil included - along the chain, so that a user's binding of a helper name wins in that context and all descendants, whenever they are created). (deep) a plush context wrapped by NewContextWithContext (7 shapes of wrap / New over 3 roots, one optional Set on the root first, then every pair of Set operations): the result is a context of its own that falls back to the wrapped one; linear chains of 2..9 contexts, every pair of Set operations anywhere on the chain, with and without one more New at the bottom in between. Non-trivial: histories with >=2 contexts or a nil/len binding.",
		Bound: func(th bool) string {
			if th {
				return "histories of <=8 operations after the root constructor, <=4 contexts"
			}
			return "histories of <=6 operations after the root constructor, <=4 contexts"
		},
	})
}

func c10Run(t *engine.T, shard string) {
	t.ManualCounts = true
	if shard == "deep" {
		c10Deep(t)
		return
	}
	var r, j int
	fmt.Sscanf(shard, "%d:%d", &r, &j)
	depth := 6
	if t.Thorough {
		depth = 8
	}
	c10Keys = c10KeySets["std"]
	if strings.HasSuffix(shard, ":alt") {
		c10Keys = c10KeySets["alt"]
		depth--
	}
	root := c10Op{"root", r, 0, 0}
	m0 := &c10Model{}
	m0.apply(root)
	first := c10Ops(m0, 4)[j]
	start := []c10Op{root, first}
	seen := map[string]bool{}
	type node struct{ hist []c10Op }
	frontier := []node{}
	visit := func(h []c10Op) {
		hh := append([]c10Op{}, h...)
		var model *c10Model
		nontrivial := false
		for _, o := range hh {
			if o.kind == "new" || o.v == c10Nil || o.k == 2 {
				nontrivial = true
			}
		}
		t.Edge(1)
		t.Case("history "+strings.Join(c10Keys, ",")+" "+c10HistString(hh), nontrivial, func() (string, *engine.Fail) {
			c, m, f := c10Check(hh)
			model = m
			return c, f
		})
		if model == nil {
			return
		}
		k := model.key()
		if !seen[k] {
			seen[k] = true
			t.State(1)
			frontier = append(frontier, node{hh})
		}
	}
	if j == 0 {
		// the root state itself belongs to the first shard of each root
		visit([]c10Op{root})
		frontier = nil
	}
	visit(start)
	for d := 1; d < depth; d++ {
		cur := frontier
		frontier = nil
		for _, nd := range cur {
			m := &c10Model{}
			for _, o := range nd.hist {
				m.apply(o)
			}
			ops := c10Ops(m, 4)
			sort.SliceStable(ops, func(a, b int) bool { return false })
			for _, o := range ops {
				visit(append(nd.hist[:len(nd.hist):len(nd.hist)], o))
			}
		}
	}
}

// c10Deep: linear chains of up to 9 contexts (scopes nest deeply in real templates); after the chain is built, every
// sequence of two Set operations anywhere on it - before and after one more New at the bottom - against the model.
func c10Deep(t *engine.T) {
	c10Keys = c10KeySets["std"]
	// a plush context handed to NewContextWithContext is wrapped like any Go context: the result is a context of its
	// own (what is Set on it stays there), which falls back to the wrapped one
	for _, r := range []int{0, 2, 5} {
		for si, shape := range [][]c10Op{
			{{"wrap", 0, 0, 0}}, {{"new", 0, 0, 0}, {"wrap", 1, 0, 0}}, {{"wrap", 0, 0, 0}, {"new", 1, 0, 0}}, {{"wrap", 0, 0, 0}, {"wrap", 1, 0, 0}},
			{{"new", 0, 0, 0}, {"wrap", 0, 0, 0}}, {{"wrap", 0, 0, 0}, {"wrap", 0, 0, 0}}, {{"new", 0, 0, 0}, {"wrap", 1, 0, 0}, {"new", 2, 0, 0}},
		} {
			base := append([]c10Op{{"root", r, 0, 0}}, shape...)
			n := len(shape) + 1
			var sets []c10Op
			for i := 0; i < n; i++ {
				for _, k := range []int{0, 2} {
					for _, v := range []int{c10One, c10Two, c10Nil} {
						sets = append(sets, c10Op{"set", i, k, v})
					}
				}
			}
			for _, pre := range append([]c10Op{{"", 0, 0, 0}}, sets...) {
				for _, s1 := range sets {
					for _, s2 := range sets {
						var h []c10Op
						if pre.kind != "" {
							// one Set before the contexts are derived
							if pre.i != 0 {
								continue
							}
							h = append(h, base[0], pre)
							h = append(h, base[1:]...)
						} else {
							h = append(h, base...)
						}
						h = append(h, s1, s2)
						hh := h
						t.Edge(1)
						t.Case(fmt.Sprintf("wrap shape=%d %s", si, c10HistString(hh)), true, func() (string, *engine.Fail) {
							c, _, f := c10Check(hh)
							return c, f
						})
					}
				}
			}
		}
	}
	for depth := 2; depth <= 9; depth++ {
		chain := []c10Op{{"root", 0, 0, 0}}
		for i := 0; i < depth-1; i++ {
			chain = append(chain, c10Op{"new", i, 0, 0})
		}
		var sets []c10Op
		for i := 0; i < depth; i++ {
			for _, k := range []int{0, 2} {
				for _, v := range []int{c10One, c10Two, c10Nil} {
					sets = append(sets, c10Op{"set", i, k, v})
				}
			}
		}
		for _, s1 := range sets {
			for _, s2 := range sets {
				if s1.i > s2.i && depth > 5 {
					continue // deep chains: ordered pairs with the first Set at or above the second
				}
				for _, late := range []bool{false, true} {
					h := append(append([]c10Op{}, chain...), s1)
					if late {
						h = append(h, c10Op{"new", depth - 1, 0, 0}) // a scope opened below after the first Set
					}
					h = append(h, s2)
					hh := h
					t.Edge(1)
					t.Case("deep "+c10HistString(hh), true, func() (string, *engine.Fail) {
						c, _, f := c10Check(hh)
						return c, f
					})
				}
			}
		}
	}
}
