package props

import (
	"context"
	"fmt"
	"os"
	"os/exec"
	"sort"
	"strconv"
	"strings"
	"sync"
	"sync/atomic"
	"time"

	"verifmc/engine"
	"verifmc/sched"

	plush "github.com/gobuffalo/plush/v5"
	"github.com/gobuffalo/plush/v5/helpers/hctx"
	"github.com/gobuffalo/plush/v5/vtick"
)

// C14 — shared templates, the cache and contexts are safe under concurrent use.
//
// Part A (shards sched:*): exhaustive exploration of interleavings of the real code under a
// cooperative scheduler with a preemption bound. Part B (shards race:*): the same scenario
// bodies free-running in a separate -race build (a cooperative scheduler's hand-offs are
// happens-before edges that would blind the detector).

var c14Templates = []struct{ name, src string }{
	{"let", `<%= x %>|<% let y = x + 1 %><%= y %>`},
	{"for", `<%= for (v) in xs { %><%= v + x %>,<% } %>`},
	{"fn", `<% let f = fn(a) { return a + 1 } %><%= f(x) %>`},
	{"hash-index", `<%= {"a": x}["a"] %><%= xs[1] %>`},
	{"method", `<%= animal.Name() %>`},
	{"struct-path", `<%= st.Kids[0].Name %><%= x %>`},
	{"if-else", `<%= if (x > 15) { %>big<%= x %><% } else { %>small<%= x %><% } %>`},
	{"else-if-chain", `<%= if (x > 100) { %>a<% } else if (x > 90) { %>b<% } else if (x > 80) { %>c<% } else if (x > 15) { %>d<%= x %><% } else { %>e<%= x %><% } %>|<%= if (x > 100) { %>a<% } else if (x > 90) { %>b<% } else if (x > 80) { %>c<% } else if (x > 70) { %>c2<% } else if (x > 60) { %>c3<% } else { %>z<% } %>`},
	{"error-line", "a\n<%= if (true) { %>\n<%= x / 0 %><% } %>"},
	{"top-error", "<%= x %>\n\n<%= nope %>"},
	{"partial", `<%= partial("p", {"w": x}) %>`},
	{"content", `<% contentFor("c") { %>[<%= x %>]<% } %><%= contentOf("c") %>`},
	{"block", `<%= blk() { %>b<%= x %><% } %>`},
	{"partial-with-escaped-quotes", `<%= partial(pname) %>`},
	{"pathfor", `<%= pathFor(car) %>|<%= pathFor([car]) %>`},
	{"helper-defaults", `<%= opt(x) %>|<%= optb(x) { %>b<% } %>|<%= opt(x + 1) %>`},
	{"operators", `<%= sv ~= "^a" %>,<%= sv ~= "b$" %>,<%= x * 2 - 1 %>,<%= sv + "!" %>,<%= x > 15 && sv == "ab" %>`},
}

func c14Data(i int) map[string]interface{} {
	return map[string]interface{}{
		"x":      10 * (i + 1),
		"xs":     []int{i, i + 1},
		"animal": c13Animals[i%2],
		"sv":     []string{"ab", "ba", "aa", "bb"}[i%4],
		"st":     &Person{Name: fmt.Sprint("N", i), Kids: []Person{{Name: fmt.Sprint("K", i)}}},
		"pname":  fmt.Sprint("q", i),
		"car":    &c14Car{ID: 100 + i},
	}
}

func c14SetData(c *plush.Context, i int) {
	for k, v := range c14Data(i) {
		c.Set(k, v)
	}
}

func c14Base() *plush.Context {
	c := plush.NewContext()
	c.Set("partialFeeder", func(name string) (string, error) {
		if strings.HasPrefix(name, "q") {
			// the partial's text is lexed while the template executes; its string literals contain escaped quotes
			return `<%= "\"` + name + ` says \"hi\" to \"` + name + `\"\"" %>|<%= "` + name + `" + "\"" %>`, nil
		}
		return `{<%= w %>}`, nil
	})
	c.Set("blk", func(help plush.HelperContext) (string, error) { return help.Block() })
	// helpers that write defaults into the options map they were handed (the call sites omit it)
	c.Set("opt", func(v int, o map[string]interface{}) string {
		o[fmt.Sprint("k", v)] = v
		return fmt.Sprint(len(o), ":", o[fmt.Sprint("k", v)])
	})
	c.Set("optb", func(v int, o map[string]interface{}, help plush.HelperContext) (string, error) {
		o[fmt.Sprint("b", v)] = v
		b, err := help.Block()
		return fmt.Sprint(len(o), b), err
	})
	return c
}

// c14Car has an ID: pathFor builds a path from its type name (a per-type table inside the helper)
type c14Car struct{ ID int }

type c14Res struct{ out, err string }

type c14Scenario struct {
	name string
	// setup returns per-thread bodies writing into res, and the expected (solo) results
	setup func(n int) (bodies []func(), res []c14Res, want []c14Res, cleanup func())
}

// c14Lazy (free-running pass only): the solo results are computed AFTER the concurrent phase, so that the
// concurrent executions are the first ones of the process and meet every lazily built table cold.
var c14Lazy bool

func c14Solo(src string, i int) c14Res {
	if c14Lazy {
		return c14Res{"\x00lazy", fmt.Sprintf("%d\x00%s", i, src)}
	}
	return c14SoloNow(src, i)
}

func c14Resolve(w c14Res) c14Res {
	if w.out != "\x00lazy" {
		return w
	}
	is, src, _ := strings.Cut(w.err, "\x00")
	i, _ := strconv.Atoi(is)
	return c14SoloNow(src, i)
}

func c14SoloNow(src string, i int) c14Res {
	plush.CacheEnabled = false
	c := c14Base()
	c14SetData(c, i)
	out, err := plush.Render(src, c)
	return c14Res{out, errStr(err)}
}

func c14Scenarios() []c14Scenario {
	var sc []c14Scenario
	for _, tp := range c14Templates {
		tp := tp
		sc = append(sc, c14Scenario{"exec-own-context:" + tp.name, func(n int) ([]func(), []c14Res, []c14Res, func()) {
			plush.CacheEnabled = false
			tm, _ := plush.NewTemplate(tp.src)
			res := make([]c14Res, n)
			want := make([]c14Res, n)
			var bodies []func()
			for i := 0; i < n; i++ {
				i := i
				want[i] = c14Solo(tp.src, i)
				ctx := c14Base()
				c14SetData(ctx, i)
				bodies = append(bodies, func() {
					out, err := tm.Exec(ctx)
					res[i] = c14Res{out, errStr(err)}
				})
			}
			return bodies, res, want, func() {}
		}})
		sc = append(sc, c14Scenario{"exec-child-of-shared-parent:" + tp.name, func(n int) ([]func(), []c14Res, []c14Res, func()) {
			plush.CacheEnabled = false
			tm, _ := plush.NewTemplate(tp.src)
			parent := c14Base()
			c14SetData(parent, 7) // parent data, shadowed by every child
			res := make([]c14Res, n)
			want := make([]c14Res, n)
			var bodies []func()
			for i := 0; i < n; i++ {
				i := i
				want[i] = c14Solo(tp.src, i)
				child := parent.New() // New() racing with other operations is explored separately (ctxnew)
				bodies = append(bodies, func() {
					for k, v := range c14Data(i) {
						child.Set(k, v)
					}
					out, err := tm.Exec(child)
					res[i] = c14Res{out, errStr(err)}
				})
			}
			return bodies, res, want, func() {}
		}})
		sc = append(sc, c14Scenario{"render-cache-cold:" + tp.name, func(n int) ([]func(), []c14Res, []c14Res, func()) {
			res := make([]c14Res, n)
			want := make([]c14Res, n)
			var bodies []func()
			for i := 0; i < n; i++ {
				want[i] = c14Solo(tp.src, i)
			}
			plush.VerifCacheReset()
			plush.CacheEnabled = true
			for i := 0; i < n; i++ {
				i := i
				ctx := c14Base()
				c14SetData(ctx, i)
				bodies = append(bodies, func() {
					out, err := plush.Render(tp.src, ctx)
					res[i] = c14Res{out, errStr(err)}
				})
			}
			return bodies, res, want, func() { plush.CacheEnabled = false; plush.VerifCacheReset() }
		}})
	}
	sc = append(sc, c14Scenario{"contentFor-then-contentOf-in-a-later-exec", func(n int) ([]func(), []c14Res, []c14Res, func()) {
		plush.CacheEnabled = false
		def, _ := plush.NewTemplate(`<% contentFor("c") { %>[<%= x %>]<% } %>d<%= x %>`)
		use, _ := plush.NewTemplate(`<%= contentOf("c") %>|<%= x %>|<%= contentOf("c") %>`)
		res := make([]c14Res, n)
		want := make([]c14Res, n)
		var bodies []func()
		for i := 0; i < n; i++ {
			i := i
			want[i] = c14Res{fmt.Sprintf("d%d/[%d]|%d|[%d]", 10*(i+1), 10*(i+1), 10*(i+1), 10*(i+1)), "<nil>"}
			ctx := c14Base()
			c14SetData(ctx, i)
			bodies = append(bodies, func() {
				o1, err := def.Exec(ctx)
				if err != nil {
					res[i] = c14Res{"", err.Error()}
					return
				}
				o2, err := use.Exec(ctx)
				res[i] = c14Res{o1 + "/" + o2, errStr(err)}
			})
		}
		return bodies, res, want, func() {}
	}})
	sc = append(sc, c14Scenario{"contentFor-on-shared-parent-contentOf-in-children", func(n int) ([]func(), []c14Res, []c14Res, func()) {
		// the block is stored on the shared parent by an earlier, completed execution; the children then
		// run it at the same time, each with its own data
		plush.CacheEnabled = false
		def, _ := plush.NewTemplate(`<% contentFor("c") { %>[<%= x %>:<%= nm %>]<% } %>`)
		use, _ := plush.NewTemplate(`<%= contentOf("c", {"nm": x}) %>|<%= x %>|<%= contentOf("c", {"nm": "k"}) %>`)
		parent := c14Base()
		c14SetData(parent, 7)
		if _, err := def.Exec(parent); err != nil {
			panic(err)
		}
		res := make([]c14Res, n)
		want := make([]c14Res, n)
		var bodies []func()
		for i := 0; i < n; i++ {
			i := i
			v := 10 * (i + 1)
			// the stored block runs in a child of its definition scope (the parent, x = 80) extended with the data
			want[i] = c14Res{fmt.Sprintf("[80:%d]|%d|[80:k]", v, v), "<nil>"}
			child := parent.New()
			bodies = append(bodies, func() {
				for k, v := range c14Data(i) {
					child.Set(k, v)
				}
				out, err := use.Exec(child)
				res[i] = c14Res{out, errStr(err)}
			})
		}
		return bodies, res, want, func() {}
	}})
	sc = append(sc, c14Scenario{"failing-stored-block-run-by-children", func(n int) ([]func(), []c14Res, []c14Res, func()) {
		// a block stored on the shared parent by a completed execution fails when the children run it (each with
		// data that makes it fail at another statement): every child gets its own error, nothing is shared
		plush.CacheEnabled = false
		def, _ := plush.NewTemplate(`<% contentFor("f") { %>a<%= 100 / dv %>
b<%= nm.Nope %>c<% } %>`)
		use, _ := plush.NewTemplate(`<%= contentOf("f", {"dv": dv, "nm": nm}) %>|<%= x %>`)
		parent := c14Base()
		c14SetData(parent, 7)
		if _, err := def.Exec(parent); err != nil {
			panic(err)
		}
		res := make([]c14Res, n)
		want := make([]c14Res, n)
		var bodies []func()
		for i := 0; i < n; i++ {
			i := i
			child := parent.New()
			solo := parent.New()
			set := func(c hctx.Context) {
				for k, v := range c14Data(i) {
					c.Set(k, v)
				}
				c.Set("dv", i%2)
				c.Set("nm", map[string]int{})
			}
			set(solo)
			out, err := use.Exec(solo)
			want[i] = c14Res{out, errStr(err)}
			bodies = append(bodies, func() {
				set(child)
				out, err := use.Exec(child)
				res[i] = c14Res{out, errStr(err)}
			})
		}
		return bodies, res, want, func() {}
	}})
	sc = append(sc, c14Scenario{"append-to-slice-of-shared-parent", func(n int) ([]func(), []c14Res, []c14Res, func()) {
		// the shared slice has spare capacity: + must not write into it
		plush.CacheEnabled = false
		tm, _ := plush.NewTemplate(`<% let b = shared + x %><%= b[1] %>|<%= len(shared) %>|<% let c = b + "z" %><%= c[1] %><%= c[2] %>`)
		parent := c14Base()
		sh := make([]interface{}, 1, 8)
		sh[0] = "s"
		parent.Set("shared", sh)
		res := make([]c14Res, n)
		want := make([]c14Res, n)
		var bodies []func()
		for i := 0; i < n; i++ {
			i := i
			v := 10 * (i + 1)
			want[i] = c14Res{fmt.Sprintf("%d|1|%dz", v, v), "<nil>"}
			child := parent.New()
			bodies = append(bodies, func() {
				for k, v := range c14Data(i) {
					child.Set(k, v)
				}
				out, err := tm.Exec(child)
				res[i] = c14Res{out, errStr(err)}
			})
		}
		return bodies, res, want, func() {}
	}})
	sc = append(sc, c14Scenario{"partial-with-data-map-of-shared-parent", func(n int) ([]func(), []c14Res, []c14Res, func()) {
		// the data map handed to partial lives in the shared parent; the partial binds names of its own
		plush.CacheEnabled = false
		tm, _ := plush.NewTemplate(`<%= partial("rowp", ropts) %>|<%= x %>`)
		parent := c14Base()
		parent.Set("ropts", map[string]interface{}{"cls": "clean"})
		pf := parent.Value("partialFeeder").(func(string) (string, error))
		parent.Set("partialFeeder", func(name string) (string, error) {
			if name == "rowp" {
				return `<% let mine = x %><% let cls2 = cls + ":" + mine %><%= cls2 %>`, nil
			}
			return pf(name)
		})
		res := make([]c14Res, n)
		want := make([]c14Res, n)
		var bodies []func()
		for i := 0; i < n; i++ {
			i := i
			v := 10 * (i + 1)
			want[i] = c14Res{fmt.Sprintf("clean:%d|%d", v, v), "<nil>"}
			child := parent.New()
			bodies = append(bodies, func() {
				for k, v := range c14Data(i) {
					child.Set(k, v)
				}
				out, err := tm.Exec(child)
				res[i] = c14Res{out, errStr(err)}
			})
		}
		return bodies, res, want, func() {}
	}})
	sc = append(sc, c14Scenario{"parse-vs-cacheset", func(n int) ([]func(), []c14Res, []c14Res, func()) {
		src := c14Templates[0].src
		res := make([]c14Res, n)
		want := make([]c14Res, n)
		for i := 0; i < n; i++ {
			want[i] = c14Solo(src, i)
		}
		plush.VerifCacheReset()
		plush.CacheEnabled = true
		pre, _ := plush.NewTemplate(src)
		var bodies []func()
		for i := 0; i < n; i++ {
			i := i
			ctx := c14Base()
			c14SetData(ctx, i)
			bodies = append(bodies, func() {
				if i%2 == 1 {
					plush.CacheSet(src, pre)
				}
				t, err := plush.Parse(src)
				if err != nil {
					res[i] = c14Res{"", err.Error()}
					return
				}
				out, err := t.Exec(ctx)
				res[i] = c14Res{out, errStr(err)}
			})
		}
		return bodies, res, want, func() { plush.CacheEnabled = false; plush.VerifCacheReset() }
	}})
	return sc
}

// context operations (linearizability) -------------------------------------------------

var c14CtxOps = []string{"Set(k,1)", "Set(k,2)", "Value(k)", "Has(k)", "Set(j,5)", "Value(j)"}

type c14Event struct {
	thread, op int
	result     string
	start, end int
}

func c14ApplySeq(m map[string]int, op int) string {
	switch op {
	case 0:
		m["k"] = 1
	case 1:
		m["k"] = 2
	case 2:
		if v, ok := m["k"]; ok {
			return fmt.Sprint(v)
		}
		return "<nil>"
	case 3:
		_, ok := m["k"]
		return fmt.Sprint(ok)
	case 4:
		m["j"] = 5
	case 5:
		if v, ok := m["j"]; ok {
			return fmt.Sprint(v)
		}
		return "<nil>"
	}
	return ""
}

func c14Linearizable(evs []c14Event) bool {
	n := len(evs)
	used := make([]bool, n)
	var rec func(done int, m map[string]int) bool
	rec = func(done int, m map[string]int) bool {
		if done == n {
			return true
		}
		for i := 0; i < n; i++ {
			if used[i] {
				continue
			}
			// real-time order: no unused event that finished before this one started
			ok := true
			for j := 0; j < n; j++ {
				if !used[j] && j != i && evs[j].end < evs[i].start {
					ok = false
					break
				}
			}
			if !ok {
				continue
			}
			m2 := map[string]int{}
			for k, v := range m {
				m2[k] = v
			}
			if c14ApplySeq(m2, evs[i].op) != evs[i].result {
				continue
			}
			used[i] = true
			if rec(done+1, m2) {
				return true
			}
			used[i] = false
		}
		return false
	}
	return rec(0, map[string]int{})
}

func c14DoCtxOp(c *plush.Context, op int) string {
	switch op {
	case 0:
		c.Set("k", 1)
	case 1:
		c.Set("k", 2)
	case 2:
		return fmt.Sprint(c.Value("k"))
	case 3:
		return fmt.Sprint(c.Has("k"))
	case 4:
		c.Set("j", 5)
	case 5:
		return fmt.Sprint(c.Value("j"))
	}
	return ""
}

func init() {
	engine.Register(&engine.Prop{
		ID: "C14",
		Shards: func(th bool) []string {
			var s []string
			for i := range c14Scenarios() {
				s = append(s, fmt.Sprintf("sched:%d", i))
			}
			for a := range c14CtxOps {
				for b := range c14CtxOps {
					s = append(s, fmt.Sprintf("ctxops:%d.%d", a, b))
				}
			}
			s = append(s, "ctxnew")
			for i := range RaceScenarioNames() {
				s = append(s, fmt.Sprintf("race:%d", i))
			}
			return s
		},
		Run:  c14Run,
		Rule: "Part A — schedules: real plush code (overlay: scheduling points at every function entry/loop head of the root package and at every mutex operation, sync replaced by a scheduler-aware shim) run under a cooperative scheduler; ALL interleavings with at most B preemptions are enumerated depth-first (choice-prefix replay; replay divergence is a hard error) for: one parsed template executed by 2 threads with own root contexts / with children of one shared parent (17 templates, one per construct class, different data per thread), Render of the same text with a cold cache, Parse vs CacheSet, a contentFor block stored on the shared parent by an earlier execution and run by contentOf in the children at the same time, + on a slice with spare capacity held by the shared parent, partial called with a data map held by the shared parent; oracle: every thread's (out, err) equals its solo result, no deadlock, no panic. Context operations: every pair of 2-operation threads over {Set(k,1), Set(k,2), Value(k), Has(k), Set(j,5), Value(j)} on one context with UNBOUNDED preemptions (as long as the scenario has at most 30 scheduling points, which holds on the unchanged tree; otherwise the largest bound fitting the budget); every recorded call/return history must be linearizable w.r.t. a sequential map (brute force); New() racing with Set/Value with bound 1. Part B — data races: the same scenario bodies (plus context mixes: readers / writers on one context, New vs Set, the first Set on a fresh child vs readers of it; executions that are all 300 template-function calls deep at the same moment) free-running (the concurrent phase comes first in each process, solo results are computed afterwards, so lazily built tables are met cold) with 2, 8 and 32 goroutines in a separate -race build, repeated; any race report or 'concurrent map' fatal error is a violation attributed to the scenario. Non-trivial: all scenarios (>=2 threads).",
		Bound: func(th bool) string {
			if th {
				return "Part A: per scenario the largest preemption bound b with n^(b+1)/b! <= 2e8 scheduling points (n = points of the default schedule; reported per case, typically 2-3), 2 and 3 threads; context ops unbounded for 2 threads x 2 ops and 3 threads x 1 op, bound 3 for 3 threads (2+1+1 ops); Part B: 200 repetitions x {2,8,32} goroutines"
			}
			return "Part A: per scenario the largest preemption bound b with n^(b+1)/b! <= 4e6 scheduling points (n = points of the default schedule; reported per case, typically 1-2), 2 threads; context ops unbounded, 2 threads x 2 ops; Part B: 30 repetitions x {2,8,32} goroutines"
		},
		Budget: 1 << 50,
	})
}

func c14Run(t *engine.T, shard string) {
	t.ManualCounts = true
	kind, arg, _ := strings.Cut(shard, ":")
	switch kind {
	case "sched":
		var i int
		fmt.Sscan(arg, &i)
		sc := c14Scenarios()[i]
		c14Explore(t, sc)
	case "ctxops":
		var a, b int
		fmt.Sscanf(arg, "%d.%d", &a, &b)
		c14CtxExplore(t, a, b)
	case "ctxnew":
		c14CtxNew(t)
	case "race":
		var i int
		fmt.Sscan(arg, &i)
		c14Race(t, RaceScenarioNames()[i])
	}
}

func c14Explore(t *engine.T, sc c14Scenario) {
	c14ExploreN(t, sc, 2)
	if t.Thorough {
		c14ExploreN(t, sc, 3)
	}
}

func c14ExploreN(t *engine.T, sc c14Scenario, nthreads int) {
	// measure the number of scheduling points of the default schedule
	vtick.Reset(vtick.Off)
	bodies, _, _, cleanup := sc.setup(nthreads)
	x, _ := sched.Run(bodies, nil, 1<<20)
	cleanup()
	// determinism of the harness itself: the same schedule replayed must give the same points
	bodies2, _, _, cleanup2 := sc.setup(nthreads)
	x2, _ := sched.Run(bodies2, nil, 1<<20)
	cleanup2()
	if len(x2.Points) != len(x.Points) {
		t.Case(fmt.Sprintf("determinism self-check %s threads=%d", sc.name, nthreads), false, func() (string, *engine.Fail) {
			return "", engine.Failf("nondeterminism", "the default schedule of this scenario has %d scheduling points on the first run and %d on the second: the code under test carries state between executions that the scheduler does not control (e.g. a pool or a global); on the unchanged tree the two runs are identical", len(x.Points), len(x2.Points))
		})
		return
	}
	// largest preemption bound whose estimated work (n^(b+1)/b! scheduling points) fits the tier's budget
	budget := 4e6
	if t.Thorough {
		budget = 2e8
	}
	n := float64(len(x.Points))
	bound := 0
	for b, est, fact := 1, n*n, 1.0; b <= 4; b++ {
		if est/fact > budget {
			break
		}
		bound = b
		est *= n
		fact *= float64(b + 1)
	}
	// iterative context bounding under a wall-clock budget: bounds 1..bound are completed one after the other; a bound
	// that does not finish in time is cut short (the run is then reported as not exhaustive for that bound)
	limit := 150 * time.Second
	if t.Thorough {
		limit = 240 * time.Second
	}
	t.Case(fmt.Sprintf("schedules %s threads=%d preemption-bound=%d (default schedule has %d points)", sc.name, nthreads, bound, len(x.Points)), true, func() (string, *engine.Fail) {
		vtick.Reset(vtick.Off)
		var res, want []c14Res
		var cleanup func()
		start := time.Now()
		done := 0
		first := bound
		if t.Thorough && bound > 1 {
			first = 1
		}
		for b := first; b <= bound; b++ {
			sched.Deadline = start.Add(limit)
			st, fail, schedule := sched.Explore(func() []func() {
				if cleanup != nil {
					cleanup()
				}
				var b []func()
				b, res, want, cleanup = sc.setup(nthreads)
				return b
			}, b, 0, 1<<20, func(x *sched.Exec, s []int) string {
				for i := range res {
					if res[i] != want[i] {
						return fmt.Sprintf("thread %d returned %+v, alone it returns %+v", i, res[i], want[i])
					}
				}
				return ""
			})
			sched.Deadline = time.Time{}
			if cleanup != nil {
				cleanup()
				cleanup = nil
			}
			t.State(st.Points)
			t.Edge(st.Points)
			t.Count("schedules_explored", int64(st.Schedules))
			t.Trace(int64(st.Schedules))
			if fail != "" {
				return "", engine.Failf("schedule", "%s; schedule (choice at each scheduling point, 0 = keep running): %v", fail, compactSchedule(schedule))
			}
			if st.Truncated {
				t.MarkIncomplete("schedule_explorations_cut_by_deadline")
				break
			}
			done = b
		}
		if done < bound {
			return fmt.Sprintf("all-schedules-ok(bound=%d; bound %d cut short by the %v budget)", done, done+1, limit), nil
		}
		return fmt.Sprintf("all-schedules-ok(bound=%d)", bound), nil
	})
}

func compactSchedule(s []int) string {
	var parts []string
	for i, c := range s {
		if c != 0 {
			parts = append(parts, fmt.Sprintf("@%d->%d", i, c))
		}
	}
	return fmt.Sprintf("len=%d switches=[%s]", len(s), strings.Join(parts, " "))
}

func c14CtxExplore(t *engine.T, a, b int) {
	nops := len(c14CtxOps)
	{
		for c := 0; c < nops; c++ {
			for d := 0; d < nops; d++ {
				ops := [][]int{{a, b}, {c, d}}
				c14CtxCase(t, ops, -1)
			}
		}
	}
	if t.Thorough {
		for c := 0; c < nops; c++ {
			c14CtxCase(t, [][]int{{a}, {b}, {c}}, -1)
			c14CtxCase(t, [][]int{{a, b}, {c}, {c}}, 3)
		}
	}
}

func c14CtxCase(t *engine.T, ops [][]int, bound int) {
	var names []string
	for _, th := range ops {
		var n []string
		for _, o := range th {
			n = append(n, c14CtxOps[o])
		}
		names = append(names, strings.Join(n, ";"))
	}
	t.Case("context-ops "+strings.Join(names, " || "), true, func() (string, *engine.Fail) {
		vtick.Reset(vtick.Off)
		var evs []c14Event
		clock := 0
		bound := bound
		if bound < 0 {
			// unbounded only while the operations are short (on the unchanged tree a 2x2 scenario has
			// about 20 scheduling points); otherwise the largest bound that fits the budget
			ctx0 := plush.NewContext()
			var probe []func()
			for _, th := range ops {
				th := th
				probe = append(probe, func() {
					for _, o := range th {
						c14DoCtxOp(ctx0, o)
					}
				})
			}
			x, _ := sched.Run(probe, nil, 1<<20)
			if os.Getenv("C14_DEBUG") != "" {
				fmt.Fprintf(os.Stderr, "ctxops probe: %d points\n", len(x.Points))
			}
			if n := float64(len(x.Points)); n > 30 {
				budget := 2e5
				if t.Thorough {
					budget = 2e7
				}
				bound = 0
				for b, est, fact := 1, n*n, 1.0; b <= 6; b++ {
					if est/fact > budget {
						break
					}
					bound = b
					est *= n
					fact *= float64(b + 1)
				}
			}
		}
		st, fail, schedule := sched.Explore(func() []func() {
			ctx := plush.NewContext()
			evs = nil
			clock = 0
			var bodies []func()
			for ti, th := range ops {
				ti, th := ti, th
				bodies = append(bodies, func() {
					for _, o := range th {
						clock++
						start := clock
						r := c14DoCtxOp(ctx, o)
						clock++
						evs = append(evs, c14Event{ti, o, r, start, clock})
					}
				})
			}
			return bodies
		}, bound, 0, 1<<20, func(x *sched.Exec, s []int) string {
			if !c14Linearizable(evs) {
				return fmt.Sprintf("history not linearizable: %+v", evs)
			}
			return ""
		})
		t.State(st.Points)
		t.Edge(st.Points)
		t.Count("schedules_explored", int64(st.Schedules))
		t.Trace(int64(st.Schedules))
		if fail != "" {
			return "", engine.Failf("schedule", "%s; schedule %v", fail, compactSchedule(schedule))
		}
		return "linearizable", nil
	})
}

func c14CtxNew(t *engine.T) {
	for o := range c14CtxOps {
		o := o
		t.Case("context New()+Value(k) || "+c14CtxOps[o], true, func() (string, *engine.Fail) {
			vtick.Reset(vtick.Off)
			var got, other string
			st, fail, schedule := sched.Explore(func() []func() {
				ctx := plush.NewContext()
				ctx.Set("k", 0)
				return []func(){
					func() { got = fmt.Sprint(ctx.New().Value("k")) },
					func() { other = c14DoCtxOp(ctx, o) },
				}
			}, 1, 0, 1<<20, func(x *sched.Exec, s []int) string {
				ok := got == "0" || (o == 0 && got == "1") || (o == 1 && got == "2")
				if !ok {
					return fmt.Sprintf("child.Value(k) = %s (other thread's %s returned %q)", got, c14CtxOps[o], other)
				}
				return ""
			})
			t.State(st.Points)
			t.Edge(st.Points)
			t.Count("schedules_explored", int64(st.Schedules))
			t.Trace(int64(st.Schedules))
			if fail != "" {
				return "", engine.Failf("schedule", "%s; schedule %v", fail, compactSchedule(schedule))
			}
			return "consistent", nil
		})
	}
}

// Part B -----------------------------------------------------------------------------

// RaceScenarioNames lists the free-running scenarios (same bodies as Part A plus context mixes).
func RaceScenarioNames() []string {
	var n []string
	for _, s := range c14Scenarios() {
		n = append(n, s.name)
	}
	n = append(n, "context-readers-writers", "context-new-vs-set", "helpers-cache-mix", "fresh-child-first-set-vs-readers", "deep-recursion-rendezvous")
	return n
}

// RunRaceScenario executes one scenario free-running (called inside the -race binary).
func RunRaceScenario(name string, goroutines, reps int) string {
	for _, s := range c14Scenarios() {
		if s.name != name {
			continue
		}
		for r := 0; r < reps; r++ {
			c14Lazy = true
			bodies, res, want, cleanup := s.setup(goroutines)
			c14Lazy = false
			c14FreeRun(bodies)
			cleanup()
			for i := range res {
				if w := c14Resolve(want[i]); res[i] != w {
					return fmt.Sprintf("goroutine %d returned %+v, alone it returns %+v", i, res[i], w)
				}
			}
		}
		return ""
	}
	switch name {
	case "context-readers-writers":
		for r := 0; r < reps; r++ {
			ctx := plush.NewContext()
			var bodies []func()
			for i := 0; i < goroutines; i++ {
				i := i
				bodies = append(bodies, func() {
					for k := 0; k < 4; k++ {
						c14DoCtxOp(ctx, (i+k)%len(c14CtxOps))
					}
				})
			}
			c14FreeRun(bodies)
		}
	case "context-new-vs-set":
		for r := 0; r < reps; r++ {
			ctx := plush.NewContext()
			var bodies []func()
			for i := 0; i < goroutines; i++ {
				i := i
				bodies = append(bodies, func() {
					if i%2 == 0 {
						ch := ctx.New()
						ch.Value("k")
						ch.Has("len")
						ch.Set("own", i)
					} else {
						ctx.Set("k", i)
						ctx.Set("len", i)
					}
				})
			}
			c14FreeRun(bodies)
		}
	case "fresh-child-first-set-vs-readers":
		// one child straight from New(), nothing bound on it yet: its first Set meets Value / Has / New on the same child
		for r := 0; r < reps; r++ {
			root := plush.NewContext()
			root.Set("x", 80)
			child := root.New()
			got := make([]string, goroutines)
			var bodies []func()
			for i := 0; i < goroutines; i++ {
				i := i
				bodies = append(bodies, func() {
					switch i % 4 {
					case 0:
						child.Set(fmt.Sprintf("own%d", i), i)
						got[i] = fmt.Sprint(child.Value("x"))
					case 1:
						got[i] = fmt.Sprint(child.Value("x"))
					case 2:
						child.Has("own0")
						got[i] = fmt.Sprint(child.Has("x"), child.Value("x"))
					case 3:
						g := child.New()
						got[i] = fmt.Sprint(g.Value("x"))
						g.Set("mine", 1)
					}
				})
			}
			c14FreeRun(bodies)
			for i, g := range got {
				if want := map[int]string{0: "80", 1: "80", 2: "true 80", 3: "80"}[i%4]; g != want {
					return fmt.Sprintf("goroutine %d read %q from the shared parent through the fresh child, expected %q", i, g, want)
				}
			}
		}
	case "deep-recursion-rendezvous":
		// every execution is 300 template-function calls deep at the same moment (a helper at the bottom waits for the
		// others): each still returns what it returns alone
		for r := 0; r < reps && r < 2; r++ {
			plush.CacheEnabled = false
			tm, err := plush.NewTemplate(`<% let down = fn(n) { if (n == 0) { return meet() }
 return down(n - 1) + 1 } %><%= down(300) %>|<%= x %>`)
			if err != nil {
				return "harness: " + err.Error()
			}
			var arrived int32
			parent := c14Base()
			parent.Set("meet", func() int {
				atomic.AddInt32(&arrived, 1)
				for deadline := time.Now().Add(30 * time.Second); atomic.LoadInt32(&arrived) < int32(goroutines) && time.Now().Before(deadline); {
					time.Sleep(time.Millisecond)
				}
				return 0
			})
			got := make([]c14Res, goroutines)
			var bodies []func()
			for i := 0; i < goroutines; i++ {
				i := i
				child := parent.New()
				bodies = append(bodies, func() {
					for k, v := range c14Data(i) {
						child.Set(k, v)
					}
					out, err := tm.Exec(child)
					got[i] = c14Res{out, errStr(err)}
				})
			}
			c14FreeRun(bodies)
			for i, g := range got {
				if want := (c14Res{fmt.Sprintf("300|%d", 10*(i+1)), "<nil>"}); g != want {
					// which execution is hit depends on timing: the report names the failure, not the goroutine
					if g.err != "<nil>" {
						return fmt.Sprintf("an execution failed with %q while %d executions were 300 calls deep at the same time; alone it renders 300|<x>", g.err, goroutines)
					}
					return fmt.Sprintf("an execution rendered something else than alone while %d executions were 300 calls deep at the same time", goroutines)
				}
			}
		}
	case "helpers-cache-mix":
		for r := 0; r < reps; r++ {
			plush.VerifCacheReset()
			plush.CacheEnabled = true
			var bodies []func()
			for i := 0; i < goroutines; i++ {
				i := i
				bodies = append(bodies, func() {
					src := c14Templates[i%3].src
					switch i % 4 {
					case 0:
						plush.Parse(src)
					case 1:
						c := c14Base()
						c14SetData(c, i)
						plush.Render(src, c)
					case 2:
						tm, _ := plush.NewTemplate(src)
						plush.CacheSet(src, tm)
					case 3:
						plush.NewContext()
					}
				})
			}
			c14FreeRun(bodies)
			plush.CacheEnabled = false
		}
	}
	return ""
}

func c14FreeRun(bodies []func()) {
	var wg sync.WaitGroup
	start := make(chan struct{})
	for _, b := range bodies {
		b := b
		wg.Add(1)
		go func() {
			defer wg.Done()
			<-start
			b()
		}()
	}
	close(start)
	wg.Wait()
}

var c14RaceTimedOut bool

func c14Race(t *engine.T, only string) {
	bin := os.Getenv("VERIF_RACE_BIN")
	reps := 30
	if t.Thorough {
		reps = 200
	}
	for _, name := range []string{only} {
		for _, g := range []int{2, 8, 32} {
			name, g := name, g
			t.Case(fmt.Sprintf("race-detector scenario=%s goroutines=%d reps=%d", name, g, reps), true, func() (string, *engine.Fail) {
				if bin == "" {
					return "", engine.Failf("harness", "VERIF_RACE_BIN not set (bin/check builds the -race variant for C14)")
				}
				if c14RaceTimedOut {
					return "skipped-after-timeout", nil // this scenario already hung once; do not wait again
				}
				// The free-running pass has no scheduler that could see a deadlock, so a generous
				// watchdog stands in for it (a scenario normally takes 1-3 s; the limit is 120 s).
				cctx, cancel := context.WithTimeout(context.Background(), 120*time.Second)
				cmd := exec.CommandContext(cctx, bin, "--race-scenario", name, fmt.Sprint(g), fmt.Sprint(reps))
				cmd.Env = append(os.Environ(), "GORACE=halt_on_error=0")
				outb, err := cmd.CombinedOutput()
				timedOut := cctx.Err() != nil
				cancel()
				out := string(outb)
				if timedOut {
					c14RaceTimedOut = true
					f := engine.Failf("deadlock", "free-running scenario did not finish within 120 s (normally 1-3 s): deadlock or livelock between goroutines")
					f.Loose = true
					return "", f
				}
				t.Count("free_running_executions", int64(reps))
				if strings.Contains(out, "WARNING: DATA RACE") {
					f := engine.Failf("data-race", "race detector report: %s", c14RaceSummary(out))
					f.Loose = true
					return "", f
				}
				if strings.Contains(out, "fatal error: concurrent map") {
					f := engine.Failf("data-race", "%s", firstLineWith(out, "fatal error"))
					f.Loose = true
					return "", f
				}
				if strings.Contains(out, "RESULT-MISMATCH") {
					return "", engine.Failf("wrong-result", "%s", firstLineWith(out, "RESULT-MISMATCH"))
				}
				if err != nil {
					return "", engine.Failf("crash", "race binary failed: %v: %s", err, tailStr(out, 400))
				}
				return "race-free", nil
			})
		}
	}
}

func firstLineWith(s, sub string) string {
	for _, l := range strings.Split(s, "\n") {
		if strings.Contains(l, sub) {
			return l
		}
	}
	return ""
}

func tailStr(s string, n int) string {
	if len(s) > n {
		return s[len(s)-n:]
	}
	return s
}

// c14RaceSummary extracts the plush frames of the first report.
func c14RaceSummary(out string) string {
	i := strings.Index(out, "WARNING: DATA RACE")
	rep := out[i:]
	if j := strings.Index(rep, "=================="); j > 0 {
		rep = rep[:j]
	}
	var frames []string
	seen := map[string]bool{}
	for _, l := range strings.Split(rep, "\n") {
		l = strings.TrimSpace(l)
		if strings.Contains(l, "plush") && strings.Contains(l, "(") && !strings.Contains(l, ".go:") && !strings.Contains(l, "verifmc") {
			if k := strings.LastIndex(l, "("); k > 0 {
				l = l[:k]
			}
			if !seen[l] {
				seen[l] = true
				frames = append(frames, l)
			}
		}
	}
	sort.Strings(frames)
	if len(frames) > 6 {
		frames = frames[:6]
	}
	return strings.Join(frames, " ; ")
}
