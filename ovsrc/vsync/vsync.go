// Package vsync replaces "sync" in the instrumented plush tree. Without a
// scheduler installed (Wait == nil) every type behaves exactly like its sync
// counterpart; with one, blocking operations become scheduler-visible waits so
// the cooperative scheduler can explore interleavings and detect deadlocks.
package vsync

import "sync"

type (
	Locker    = sync.Locker
	Once      = sync.Once
	WaitGroup = sync.WaitGroup
	Map       = sync.Map
	Pool      = sync.Pool
	Cond      = sync.Cond
)

func NewCond(l Locker) *Cond { return sync.NewCond(l) }

// Wait is installed by the cooperative scheduler: it yields until ready()
// holds and returns with the calling thread running (no other managed thread
// runs between the last evaluation of ready and the return).
var Wait func(ready func() bool)

// Point is installed by the scheduler: a plain scheduling point.
var Point func()

type Mutex struct {
	mu   sync.Mutex
	held bool
}

func (m *Mutex) Lock() {
	if Wait != nil {
		Wait(func() bool { return !m.held })
		m.held = true
		return
	}
	m.mu.Lock()
}

func (m *Mutex) TryLock() bool {
	if Wait != nil {
		Point()
		if m.held {
			return false
		}
		m.held = true
		return true
	}
	return m.mu.TryLock()
}

func (m *Mutex) Unlock() {
	if Wait != nil {
		if !m.held {
			panic("vsync: unlock of unlocked mutex")
		}
		m.held = false
		Point()
		return
	}
	m.mu.Unlock()
}

type RWMutex struct {
	mu    sync.RWMutex
	w     bool
	r     int
	wwait int // writers blocked in Lock: as in sync.RWMutex they block new readers
}

func (m *RWMutex) Lock() {
	if Wait != nil {
		m.wwait++
		Wait(func() bool { return !m.w && m.r == 0 })
		m.wwait--
		m.w = true
		return
	}
	m.mu.Lock()
}

func (m *RWMutex) Unlock() {
	if Wait != nil {
		if !m.w {
			panic("vsync: unlock of unlocked rwmutex")
		}
		m.w = false
		Point()
		return
	}
	m.mu.Unlock()
}

func (m *RWMutex) RLock() {
	if Wait != nil {
		Wait(func() bool { return !m.w && m.wwait == 0 })
		m.r++
		return
	}
	m.mu.RLock()
}

func (m *RWMutex) RUnlock() {
	if Wait != nil {
		if m.r <= 0 {
			panic("vsync: runlock of unlocked rwmutex")
		}
		m.r--
		Point()
		return
	}
	m.mu.RUnlock()
}

func (m *RWMutex) RLocker() Locker { return (*rlocker)(m) }

type rlocker RWMutex

func (r *rlocker) Lock()   { (*RWMutex)(r).RLock() }
func (r *rlocker) Unlock() { (*RWMutex)(r).RUnlock() }
