// Package vtick is a virtual package added to the plush module by the verification
// overlay. Tick is called at every function entry and loop iteration of the
// instrumented tree: a step budget that turns hangs and runaway recursion into a
// recoverable panic (Budget), and (TickS, root package only) a scheduling point.
package vtick

// Budget is the sentinel panic value raised when the step budget is exhausted.
type Budget struct{}

var (
	// N counts ticks since the last Reset.
	N int64
	// Limit is the current budget; Off disables it.
	Limit int64 = Off
	// Sched, when non-nil, is invoked at every scheduling point.
	Sched func()
	// Exhausted is set when the budget was hit since the last Reset.
	Exhausted bool
)

const Off = int64(1) << 62

// Reset starts a new case with the given budget.
func Reset(limit int64) {
	N = 0
	Limit = limit
	Exhausted = false
}

func Tick() {
	N++
	if N > Limit {
		Limit = Off
		Exhausted = true
		panic(Budget{})
	}
}

func TickS() {
	Tick()
	if Sched != nil {
		Sched()
	}
}
