package runtime

import _ "unsafe"

// Verification overlay: the random word used by mapiterinit is supplied by the
// harness while verifMapOn is set (one scripted answer per map-iteration call,
// default 0 = start at bucket 0 / offset 0 = insertion order for small maps).

var (
	verifMapOn     bool
	verifMapScript [512]uint64
	verifMapCalls  int
)

func verifMapRand() uint64 {
	if !verifMapOn {
		return rand()
	}
	i := verifMapCalls
	verifMapCalls++
	if i < len(verifMapScript) {
		return verifMapScript[i]
	}
	return 0
}

// verifMapCtl installs a script (or turns the hook off) and returns the number
// of map-iteration calls answered since the previous call.
//
//go:linkname verifMapCtl
func verifMapCtl(on bool, script []uint64) int {
	calls := verifMapCalls
	verifMapOn = false
	verifMapCalls = 0
	for i := range verifMapScript {
		verifMapScript[i] = 0
	}
	copy(verifMapScript[:], script)
	verifMapOn = on
	return calls
}
