#!/usr/bin/env python3
import json,glob,collections,sys
pid=sys.argv[1]
c=collections.Counter(); ex={}
for f in glob.glob('/verif/replays/%s/*.json'%pid):
    v=json.load(open(f))
    site=v['kind']+' '+(v['msg'].split('@')[-1].strip()[:100] if v['kind']=='panic' else v['msg'][:100])
    c[site]+=1; ex.setdefault(site,[]).append(v['desc'])
for s,n in c.most_common():
    print(n,s)
    for d in sorted(ex[s],key=len)[:int(sys.argv[2]) if len(sys.argv)>2 else 2]: print('     ',d[:200])
print(json.load(open('/verif/evidence/%s.json'%pid))['coverage']['outcome_classes'])
