#!/usr/bin/env python3
"""Regenerates /verif/MANIFEST.json from the table below (kept in one place so the
manifest stays valid while checks are added)."""
import json, subprocess, sys

ALL = ["C%02d" % i for i in range(1, 21)]

# id -> (level text, level_note, technique, design_ref)
CHECKS = {}

def claim(pid, text, note, technique, ref):
    CHECKS[pid] = (text, note, technique, ref)

EXEC_NOTE = ("Trusted base: the Go toolchain, the go/ast-generated tick overlay (textual insertion of vtick.Tick() at function entries "
             "and loop heads of the current /repo tree), the reference model written in Go next to the check, and the bound stated in the evidence. "
             "Nothing is claimed beyond the completed bound. The generator families and bounds actually executed (they grew with every round of seeded changes) "
             "are recorded verbatim in coverage.rule / coverage.bound_completed of the evidence file each run writes.")

claim("C03",
      "Bounded exhaustive exploration of the real parser: every token sequence of length <=3 (quick) / <=4 (thorough) over a vocabulary covering every token type in 12 tag framings, 18 nesting families at every depth 1..256, and every truncation / single-byte edit (pairs in thorough) of a construct-covering corpus; each input is executed on plush.Parse under panic recovery and a step budget (hang = budget exhausted, no wall clock). Totality is a property of every input, so enumeration of the small-input space reaches the nil-child/EOF combinations a handful of tests cannot.",
      EXEC_NOTE, "bounded exhaustive input enumeration (explicit-state, trie DFS) on the real parser with step-budget hang detection", "DESIGN.md §4 C03")

claim("C02",
      "Bounded exhaustive exploration of the real lexer/parser/evaluator against a reference scanner: every string over an 11-symbol escape-relevant alphabet up to length 5/6 bare and around 4 generated tags, every string-literal body up to length 4/5 over a 12-symbol alphabet in 5 placements, and every sequence of <=3 items from text/output tag/17 silent constructs in 7 block placements (differential against the same template with the silent items deleted). The scanner decides per byte context, so all short byte contexts are enumerated rather than sampled.",
      EXEC_NOTE, "bounded exhaustive input enumeration on the real code vs. a reference scanner (explicit-state, trie DFS)", "DESIGN.md §4 C02")
claim("C04",
      "Complete kind matrices executed on the real evaluator: (operator x L x R), unary/emit/let/assign, L[I] with field/method tails, L[I]=V for all triples, member/method access on every kind incl. nil receivers, for over every kind, L(args) up to 3 arguments, user functions p params x a args, and every built-in helper (taken from plush.Helpers at run time) x argument lists, over 43 injected + 11 expression-produced value kinds; oracle (out,nil) or (\"\",err), no panic / step-budget exhaustion / worker crash. Each reflect precondition is selected by a kind combination, so the matrices are the state space.",
      EXEC_NOTE, "bounded exhaustive enumeration of kind matrices on the real evaluator (explicit-state) with step-budget hang detection", "DESIGN.md §4 C04")
claim("C05",
      "All compositions wrapper^d ∘ statement-form ∘ expression-context^e ∘ failing-atom (10 wrappers, 12 statement forms, 35 expression contexts, 9 atoms; d<=1/2, e<=2) rendered on the real code with recording helpers; whenever the failing site was reached the render must fail with empty output and errors.Is(sentinel); unknown identifiers are tolerated exactly in the listed direct positions. Whether an error survives depends on every evaluator frame between the failure and the top, so every frame pair is enumerated.",
      EXEC_NOTE, "bounded exhaustive enumeration of program contexts with fault-injecting helpers on the real evaluator", "DESIGN.md §4 C05")

claim("C06",
      "Every expression tree of depth <=2 over a 13-value literal/variable pool and all 13 binary operators plus '!' (all operator pairs x all operand triples for the two 3-leaf shapes, all operator triples over a reduced pool for the 4-leaf shape, negation variants) is printed with minimal parentheses under the stated precedence table, with full parentheses and with recording operands, rendered on the real code and compared with a reference evaluator written in Go; short-circuiting is observed through the recording operands. Wrong precedence/associativity/operator tables show only on specific operator pairs and operand values, so the pair space is enumerated completely.",
      EXEC_NOTE + " Unspecified coercions (bool op non-bool, string compared with non-string, bool+bool) are checked for totality only.", "bounded exhaustive enumeration of expression trees on the real parser+evaluator vs. a reference evaluator", "DESIGN.md §4 C06")
claim("C07",
      "Complete matrix of 75 subjects (all value kinds incl. nil pointer, empty HTML, unknown identifier, literals, field/index/call results) x 14 syntactic contexts against the statement's truth table, and every if/else-if/else chain with up to 3 else-ifs over 6 condition values through a counting helper, in 4 placements and 2 block styles: first truthy block rendered, conditions 0..j evaluated exactly once. Uniformity is a relation between contexts, so the whole kind x context matrix is explored.",
      EXEC_NOTE, "bounded exhaustive enumeration (kind x context matrix, all chain truth assignments) on the real evaluator", "DESIGN.md §4 C07")
claim("C08",
      "All loops over 16 iterable kinds at every length 0..3/4 with every body sequence of <=3/4 statements from 16 items (emits, conditional/bare break and continue, emit-then-break, return, let, inner loops with their own control flow, fn literal), 2 tag layouts, 4 placements, compared with a reference interpreter; maps are checked order-independently and additionally under every forced rotation of Go's map iteration order (runtime overlay hook); control-free bodies by unrolling. nil / non-iterable operands and break/continue at nesting depth 1..4.",
      EXEC_NOTE + " Map iteration order is controlled through an overlay of runtime/map.go (go1.23).", "bounded exhaustive enumeration of loop programs on the real code vs. a reference interpreter; environment-answer enumeration for map order", "DESIGN.md §4 C08")

claim("C09",
      "All nestings (depth <=2 with all action subsets, depth 3 reduced / complete in thorough) of 11 scope constructs (for over slice/Iterator/map, user-function call, partial with data, contentFor+contentOf with data, contentOf default block, BlockWith(child) helper, Block() helper, if, contentFor defined at top level and used inside) with every subset of {let fresh, shadowing let, assignment} per level and probes of every name at the end of each body, after each construct and at the end; compared with an environment-chain reference model. Scope handling is re-implemented per construct, so every construct pair/triple is enumerated.",
      EXEC_NOTE, "bounded exhaustive enumeration of nested scope programs on the real evaluator vs. an environment-chain reference model", "DESIGN.md §4 C09")
claim("C10",
      "Explicit-state breadth-first search over histories of root constructor (4 variants) / New / Set on up to 4 contexts, keys {a, b, len (a built-in helper name)}, values {1, 2, nil}, to depth 6 (quick) / 8 (thorough): every transition calls the real API on fresh objects (history replay), states are deduplicated on the reference model's state, and in every state the full observation vector (Value and Has of every context x key) is compared with the model. Aliasing and shadowing bugs need particular write orders on parents and children; BFS reaches all of them within the bound.",
      EXEC_NOTE + " State merging is sound because two histories with the same model state have the same futures under the model and the implementation's observable state was just checked to equal it.", "explicit-state BFS over operation histories on the real objects with a reference model (state = model state, invariant = full observation vector)", "DESIGN.md §4 C10")
claim("C11",
      "Every walk of <=6 (7 thorough) steps (field, index, map key, method call) through a depth-3 data graph whose leaf strings spell their own Go path, from 7 roots incl. roots and index variables named like fields, with 4 index spellings, used in an output tag, through let and as loop iterable; expected value computed by Go reflection navigation; plus every walk prefix extended by one uncompletable step. Oracle: exactly the leaf or an error, never another value; uncompletable: error or empty, never a leaf or panic.",
      EXEC_NOTE + " A completable path that fails with an error is accepted (the property's 'or fails'); the evidence counts how many completable paths yield their value.", "bounded exhaustive enumeration of access paths over a self-describing data graph on the real evaluator vs. reflection navigation", "DESIGN.md §4 C11")
claim("C12",
      "Every signature of a family built with reflect.FuncOf/MakeFunc (0..2/3 fixed parameters over 5 types x 10 tails incl. options map / helper context in both typings / 3 variadic tails x 6 result shapes) x every argument list of length 0..3/4 over 8 values (incl. nil, typed nil pointer) with logging wrappers, with and without a block; compared with a reference binder (who is invoked, with which values, argument evaluation log, auto-supplied map/context carrying the block, result and error handling).",
      EXEC_NOTE + " Omitted ordinary (non map/context) parameters are treated as unspecified.", "bounded exhaustive enumeration of (signature x call shape) on the real call binder vs. a reference binder, with recording helpers", "DESIGN.md §4 C12")

claim("C01",
      "payload x source x value-route^d x emit-form x wrapper^e: 20 sources (incl. the 4 trusted ones), 11 value routes, 9 emit forms, 12 wrappers, 9 payloads, d<=1/2, e<=2, plus every single byte 0x01..0xFF and every string of length <=3 over a 10-symbol alphabet through all sources; a reference evaluator over the route yields the expected atom list (plain | trusted | literal frame) and the output is walked along it: plain atoms fully entity-escaped (any spelling), trusted atoms verbatim, nothing dropped or doubled. The sink is reached by different code on every route, so routes are enumerated rather than sampled.",
      EXEC_NOTE, "bounded exhaustive enumeration of data-flow routes on the real evaluator vs. a reference atom model", "DESIGN.md §4 C01")
claim("C13",
      "Three exhaustive families: (paths) every program of a construct-covering corpus + hash-literal/side-effect family x 2 data sets through fresh parse, 3 repeated executions, Clone, cache cold/warm/off with a deep structural hash (reflection over all fields, cycle-safe) of the parsed program before/after every execution; (env) every map-iteration call made during an execution is an environment choice point supplied through a runtime overlay — all single (pairs in thorough) deviations from the default order must give the same (out, err, side-effect log); (hist) every history of length <=3/4 over a 38-operation alphabet (fresh/exec/clone/render x 4 templates x 2 data, cache toggle, CacheSet) from a cold and a warm cache, each result compared with the pristine reference, all live programs re-hashed, cache entries checked against their key.",
      EXEC_NOTE + " Map iteration order is controlled through an overlay of runtime/map.go (go1.23): order dependence that shows with some probability per run shows on every run.", "explicit enumeration of operation histories + environment-answer (map order) enumeration on the real code; deep AST hashing via the verif hook", "DESIGN.md §4 C13")
claim("C14",
      "Part A: stateless exploration of ALL interleavings with a bounded number of preemptions of the real code under a hand-written cooperative scheduler (overlay: scheduling points at every function entry/loop of the root package and every mutex operation; sync replaced by a shim): one template executed by 2 threads with own contexts / children of a shared parent (12 construct classes), cold-cache Render, Parse vs CacheSet — each thread must return its solo result, no deadlock/panic; context operations with unbounded preemptions checked for linearizability by brute force. Part B: the same scenario bodies free-running in a separate -race build with 2/8/32 goroutines, repeated; every race report or concurrent-map fatal error is a violation.",
      EXEC_NOTE + " Part B is dynamic race detection over an exhaustively enumerated scenario set, not an enumeration of interleavings (a cooperative scheduler's hand-offs are happens-before edges that blind the detector); memory-model effects below Go's happens-before are not modelled.", "stateless model checking of the implementation under a controlled scheduler (iterative context bounding, DFS over choice prefixes) + free-running race detector pass", "DESIGN.md §4 C14")
claim("C15",
      "Every template made of <=3/4 preceding items from 14 line-affecting kinds (text, CRLF, multi-line tags/strings/comments, # comments, blocks spanning lines, escaped tag) followed by one of 24 failing statements (runtime faults, syntax-error families, multi-line failing tags, unterminated string) in 7 placements; error must start with line N:, N must be the failing tag's line (within its extent when multi-line), and shifting by k=1..3 leading newlines must change exactly the line numbers.",
      EXEC_NOTE, "bounded exhaustive enumeration of multi-line templates on the real lexer/parser/evaluator with an absolute and a metamorphic (shift) oracle", "DESIGN.md §4 C15")
claim("C16",
      "Every decision-chain function of p<=2 (3 reduced / full in thorough) parameters with <=2 conditions and 4 kinds of returned values (plus nested-if and let shapes, a side-effecting statement after every return) x every argument tuple over literals, outer variables named like the parameters and a nested call of the same function x 12 ways of using the result; plus nested/re-entrant calls, higher-order use, storage and passing of functions, recursion. Compared with a reference evaluation of the chain.",
      EXEC_NOTE, "bounded exhaustive enumeration of function definitions x argument tuples x result uses on the real evaluator vs. a reference evaluator", "DESIGN.md §4 C16")
claim("C17",
      "All combinations of 10 partial bodies x 5 data maps x 4 layouts (incl. a layout that itself uses a partial with a layout) x 3 content types x 3 name extensions x 5 placements, every contentFor/contentOf program of <=4 items (incl. uses inside for / function bodies), and block helpers using Block()/BlockWith()/Block() twice; oracle is differential: the same sources rendered by plush itself as standalone templates in the equivalent scope, composed at string level (JS case: JSEscapeString), plus a counting marker for exactly-once insertion.",
      EXEC_NOTE + " The composition logic of partial (child scope, JS escaping, layout recursion) is re-stated in the oracle; the bodies are rendered by plush itself.", "bounded exhaustive enumeration of compositions on the real code with a differential (inline rendering) oracle", "DESIGN.md §4 C17")
claim("C18",
      "28 programs as token lists: every single gap and every pair of gaps between adjacent tokens replaced by each of {tab, newline, CRLF, two spaces, # line comment, empty where gluing is token-preserving}, a comment tag spliced in at every statement boundary inside blocks; every statement sequence of <=3/4 from 10 statements cut into tags in every way (incl. statements directly after a closing brace) with comment tags / line comments at the boundaries; oracle is differential against the canonical layout (errors compared modulo line N:).",
      EXEC_NOTE, "bounded exhaustive enumeration of re-layouts (deviation-bounded: <=2 gap deviations) on the real lexer/parser with a differential oracle", "DESIGN.md §4 C18")
claim("C19",
      "range/between for all pairs and until for all values over [-8,8] plus the 4 int extremes, drained under a Next() budget; groupBy in both shipped implementations for every length 0..40 x n in -1..12 x 4 element types x 4 container shapes with the partition laws and group-by-group equality of the implementations; len over all listed kinds; small cases also through template for loops.",
      EXEC_NOTE, "exhaustive enumeration of a finite argument domain on the real helper functions vs. arithmetic/partition laws", "DESIGN.md §4 C19")
claim("C20",
      "truncate over every string of length <=4/5 over a 14-symbol alphabet (ASCII, multi-byte, combining, invalid UTF-8, specials) x 14 sizes x 6 trails and patterned strings of every length 0..64 x every size in [-2,70] x 6 trails against the stated laws; htmlEscape/jsEscape/raw over the same strings (direct and through templates); toJSON over a recursive value generator and all short control-character strings: valid JSON, round trip, no raw < > &.",
      EXEC_NOTE, "exhaustive enumeration of short strings / generated values on the real helper functions vs. the stated laws", "DESIGN.md §4 C20")

def main():
    repo_head = subprocess.run(["git", "-C", "/repo", "log", "--format=%H %s"], capture_output=True, text=True).stdout.strip().split("\n")
    hook_commits = [l.split()[0] for l in repo_head if " verif:" in l]
    checks = []
    for pid in ALL:
        if pid not in CHECKS:
            continue
        text, note, tech, ref = CHECKS[pid]
        checks.append({
            "property_id": pid,
            "quick_cmd": "bin/check %s quick" % pid,
            "thorough_cmd": "bin/check %s thorough" % pid,
            "evidence_file": "/verif/evidence/%s.json" % pid,
            "replay_cmd_template": "bin/check %s --replay {path}" % pid,
            "engine": "mc",
            "level_claimed": {"category": "model_checking", "text": text, "design_ref": ref},
            "level_note": note,
            "technique": tech,
        })
    na = [{"property_id": p, "reason": "check not built yet (work in progress; see DESIGN.md §4 for the planned check)"} for p in ALL if p not in CHECKS]
    m = {
        "version": 1,
        "setup_cmd": "bin/setup",
        "hooks": {
            "guard": "verif",
            "enable": "go build -tags verif -overlay <generated> (bin/build); hooks live in /repo/verif_hooks.go (//go:build verif)",
            "baseline_off_cmd": "cd /repo && GOFLAGS=-mod=mod GOPROXY=off GOSUMDB=off GOTOOLCHAIN=local go test -json -vet=off -count=1 -timeout 25m ./...",
            "source_commits": hook_commits,
            "add_only": True,
        },
        "engines": [{
            "name": "mc", "path": "/verif/mc",
            "serves_properties": sorted(CHECKS),
            "kind_free_text": "hand-written bounded-exhaustive explorer in Go: trie/BFS enumeration of inputs, programs and histories executed on the real plush code under an overlay-injected step budget; worker subprocess sharding; cooperative scheduler + runtime map-order hook for schedules/environment answers",
        }],
        "checks": checks,
        "not_applicable": na,
        "notes": "bin/check rebuilds the harness from /repo's current working tree (or $VERIF_REPO) on every invocation; see DESIGN.md.",
    }
    json.dump(m, open("/verif/MANIFEST.json", "w"), indent=1)
    print("MANIFEST.json: %d checks, %d not_applicable" % (len(checks), len(na)))

if __name__ == "__main__":
    main()
