#!/usr/bin/env python3
"""Regenerates /verif/MANIFEST.json from the table below (kept in one place so the
manifest stays valid while checks are added)."""
import json, subprocess, sys

ALL = ["C%02d" % i for i in range(1, 21)]

# id -> (level text, level_note, technique, design_ref)
CHECKS = {}

def claim(pid, text, note, technique, ref):
    CHECKS[pid] = (text, note, technique, ref)

EXEC_NOTE = ("Trusted base: the Go toolchain, the go/ast-generated tick overlay (textual insertion of vtick.Tick() at function entries "
             "and loop heads of the current /repo tree), the reference model written in Go next to the check, and the bound stated in the evidence. "
             "Nothing is claimed beyond the completed bound.")

claim("C03",
      "Bounded exhaustive exploration of the real parser: every token sequence of length <=3 (quick) / <=4 (thorough) over a vocabulary covering every token type in 12 tag framings, 18 nesting families at every depth 1..256, and every truncation / single-byte edit (pairs in thorough) of a construct-covering corpus; each input is executed on plush.Parse under panic recovery and a step budget (hang = budget exhausted, no wall clock). Totality is a property of every input, so enumeration of the small-input space reaches the nil-child/EOF combinations a handful of tests cannot.",
      EXEC_NOTE, "bounded exhaustive input enumeration (explicit-state, trie DFS) on the real parser with step-budget hang detection", "DESIGN.md §4 C03")

def main():
    repo_head = subprocess.run(["git", "-C", "/repo", "log", "--format=%H %s"], capture_output=True, text=True).stdout.strip().split("\n")
    hook_commits = [l.split()[0] for l in repo_head if " verif:" in l]
    checks = []
    for pid in ALL:
        if pid not in CHECKS:
            continue
        text, note, tech, ref = CHECKS[pid]
        checks.append({
            "property_id": pid,
            "quick_cmd": "bin/check %s quick" % pid,
            "thorough_cmd": "bin/check %s thorough" % pid,
            "evidence_file": "/verif/evidence/%s.json" % pid,
            "replay_cmd_template": "bin/check %s --replay {path}" % pid,
            "engine": "mc",
            "level_claimed": {"category": "model_checking", "text": text, "design_ref": ref},
            "level_note": note,
            "technique": tech,
        })
    na = [{"property_id": p, "reason": "check not built yet (work in progress; see DESIGN.md §4 for the planned check)"} for p in ALL if p not in CHECKS]
    m = {
        "version": 1,
        "setup_cmd": "bin/setup",
        "hooks": {
            "guard": "verif",
            "enable": "go build -tags verif -overlay <generated> (bin/build); hooks live in /repo/verif_hooks.go (//go:build verif)",
            "baseline_off_cmd": "cd /repo && GOFLAGS=-mod=mod GOPROXY=off GOSUMDB=off GOTOOLCHAIN=local go test -json -vet=off -count=1 -timeout 25m ./...",
            "source_commits": hook_commits,
            "add_only": True,
        },
        "engines": [{
            "name": "mc", "path": "/verif/mc",
            "serves_properties": sorted(CHECKS),
            "kind_free_text": "hand-written bounded-exhaustive explorer in Go: trie/BFS enumeration of inputs, programs and histories executed on the real plush code under an overlay-injected step budget; worker subprocess sharding; cooperative scheduler + runtime map-order hook for schedules/environment answers",
        }],
        "checks": checks,
        "not_applicable": na,
        "notes": "bin/check rebuilds the harness from /repo's current working tree (or $VERIF_REPO) on every invocation; see DESIGN.md.",
    }
    json.dump(m, open("/verif/MANIFEST.json", "w"), indent=1)
    print("MANIFEST.json: %d checks, %d not_applicable" % (len(checks), len(na)))

if __name__ == "__main__":
    main()
