#!/bin/bash
# For every seed under /verif/seeded: make sure the patch applies to /repo HEAD (refresh it from the
# original material if not), run the quick check of its property against the patched scratch tree and
# record the outcome in meta.json ("detected_by").
cd /verif
for d in /verif/seeded/*/; do
  s=$(basename $d); prop=${s%%-*}
  if ! git -C /repo apply --check "$d/patch.diff" 2>/dev/null; then
    echo "$s: patch no longer applies to HEAD"; continue
  fi
  out=$(SUITE=0 tools/trymutant.sh "$d/patch.diff" $prop 2>&1)
  rc=$(echo "$out" | grep -oE "exit=[0-9]+" | head -1 | cut -d= -f2)
  first=$(echo "$out" | sed 's/.*:: //' | cut -c1-300)
  python3 - "$d" "$prop" "$rc" "$first" <<'PY'
import json,sys,subprocess
d,prop,rc,first=sys.argv[1:5]
m=json.load(open(d+'/meta.json'))
head=subprocess.run(['git','-C','/repo','log','--format=%h','-1'],capture_output=True,text=True).stdout.strip()
m['patch_applies_to_repo_commit']=head
m['detected_by']=[{"check":prop,"tier":"quick","exit":int(rc or -1),"detected":rc=="1","first_violation":first.strip()}]
json.dump(m,open(d+'/meta.json','w'),indent=1)
PY
  echo "$s: exit=$rc"
done
