#!/bin/bash
# Re-validates every stored seed against /repo HEAD: patch applies, suite passes with it, demo fails with it and
# passes without it. Seeds that no longer qualify are moved to /verif/seeded-obsolete/<id> with the reason.
cd /verif
mkdir -p seeded-obsolete
for d in /verif/seeded/*/; do
  s=$(basename $d); prop=${s%%-*}
  tmp=/tmp/wt/reseed-src-$s; rm -rf $tmp; cp -r $d $tmp
  out=$(tools/verify_seed.sh $tmp $s $prop 2>&1 | head -1)
  echo "$out"
  case "$out" in
    *"suite_with_patch=pass demo_with_patch=fail demo_without_patch=pass"*) ;;
    *) rm -rf seeded-obsolete/$s; mv $d seeded-obsolete/$s; echo "$out" > seeded-obsolete/$s/OBSOLETE.txt ;;
  esac
  rm -rf $tmp
done
