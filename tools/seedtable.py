#!/usr/bin/env python3
"""Rewrites the seeded-change table of DESIGN.md from /verif/seeded/*/meta.json."""
import json, glob, os, re
rows = []
for d in sorted(glob.glob('/verif/seeded/*/')):
    m = json.load(open(d + 'meta.json'))
    patch = open(d + 'patch.diff').read()
    files = sorted(set(re.findall(r'^\+\+\+ b/(\S+)', patch, re.M)))
    det = m.get('detected_by') or []
    if det:
        x = det[0]
        verdict = ('**yes** (' + x['check'] + ' ' + x['tier'] + ')') if x.get('detected') else '**NO**'
        first = x.get('first_violation', '').replace('|', '\\|').replace('\n', ' ')
        first = re.sub(r'\s+', ' ', first)[:160]
    else:
        verdict, first = 'not run', ''
    rows.append('| %s | %s | %s | %s | %s |' % (m['seed'], m['breaks_property'], ', '.join(files), verdict, first))
obs = []
for d in sorted(glob.glob('/verif/seeded-obsolete/*/')):
    why = open(d + 'OBSOLETE.txt').read().strip() if os.path.exists(d + 'OBSOLETE.txt') else ''
    obs.append('| %s | %s |' % (os.path.basename(d.rstrip('/')), why.replace('|', '\\|')[:200]))
table = ['| seed | property | files touched | reported by its check | first violation reported (abridged) |', '|---|---|---|---|---|'] + rows
if obs:
    table += ['', 'Seeds that stopped breaking their property after later `fix:` commits (kept under `seeded-obsolete/`; the mutated code became unreachable or the symptom was removed by the repair):', '', '| seed | re-validation result on HEAD |', '|---|---|'] + obs
p = '/verif/DESIGN.md'
s = open(p).read()
new = '<!-- SEED_TABLE_BEGIN -->\n' + '\n'.join(table) + '\n<!-- SEED_TABLE_END -->'
if 'SEED_TABLE_BEGIN' in s:
    s = re.sub(r'<!-- SEED_TABLE_BEGIN -->.*?<!-- SEED_TABLE_END -->', lambda _: new, s, flags=re.S)
else:
    s = s.replace('SEED_TABLE', new, 1)
open(p, 'w').write(s)
print(len(rows), 'seeds,', len(obs), 'obsolete')
