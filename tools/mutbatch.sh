#!/bin/bash
# usage: tools/mutbatch.sh <dir-with-Cxx/mK/patch.diff> C03 C04 ...   -> one line per mutant
ROOT=$1; shift
for ID in "$@"; do
  for m in "$ROOT/$ID"/m*; do
    [ -f "$m/patch.diff" ] || continue
    echo "== $ID $(basename $m)"
    SUITE=${SUITE:-1} /verif/tools/trymutant.sh "$m/patch.diff" "$ID"
  done
done
