#!/bin/bash
# usage: tools/trymutant.sh <patch.diff> <ID> [<ID>...]   (env SUITE=1 also runs the repo's test suite)
# Applies the patch to a scratch worktree of /repo HEAD (outside /repo and /verif), runs the given
# quick checks against it via VERIF_REPO, prints one line per check, removes the worktree.
set -u
PATCH=$(readlink -f "$1"); shift
export GOFLAGS=-mod=mod GOPROXY=off GOSUMDB=off GOTOOLCHAIN=local
WT=/tmp/wt/mut-$$
git -C /repo worktree add -q --detach "$WT" HEAD || exit 2
TAG=$(echo -n "$WT" | md5sum | cut -c1-8)
trap 'git -C /repo worktree remove --force "$WT" >/dev/null 2>&1; rm -rf /verif/.cache/tick-$TAG /verif/.cache/race-$TAG /tmp/verif-scratch-$TAG' EXIT
if ! git -C "$WT" apply "$PATCH" 2>/dev/null; then
  if ! git -C "$WT" apply -3 "$PATCH" 2>/dev/null; then
    if ! (cd "$WT" && patch -p1 --fuzz=3 -s < "$PATCH"); then echo "PATCH-DOES-NOT-APPLY $PATCH"; exit 3; fi
  fi
fi
if [ "${SUITE:-0}" = 1 ]; then
  if (cd "$WT" && go test -vet=off -count=1 ./... >/tmp/wt/suite-$$.log 2>&1); then echo "suite: PASS"; else echo "suite: FAIL"; grep -E "^(--- FAIL|FAIL)" /tmp/wt/suite-$$.log | head -5; fi
  rm -f /tmp/wt/suite-$$.log
fi
for ID in "$@"; do
  OUT=$(VERIF_REPO="$WT" VERIF_DIR_EVIDENCE=skip /verif/bin/check "$ID" ${TIER:-quick} 2>&1)
  RC=$?
  NV=$(echo "$OUT" | grep -c '^VIOLATION')
  echo "check $ID: exit=$RC violations_printed=$NV :: $(echo "$OUT" | grep -A2 '^VIOLATION' | sed -n '2,3p' | tr '\n' ' ' | cut -c1-300)"
done
