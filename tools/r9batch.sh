#!/bin/bash
# usage: tools/r2batch.sh C03 C07 ...   (processes /tmp/wtout9/<ID>/m{1,2})
for ID in "$@"; do
  for k in 1 2; do
    src=/tmp/wtout9/$ID/m$k
    [ -f $src/patch.diff ] || continue
    seed=$ID-r9m$k
    /verif/tools/verify_seed.sh $src $seed $ID
    if [ -d /verif/seeded/$seed ]; then
      out=$(SUITE=0 /verif/tools/trymutant.sh /verif/seeded/$seed/patch.diff $ID 2>&1)
      echo "$seed :: $(echo "$out" | cut -c1-420)"
    fi
  done
done
