#!/bin/bash
# usage: tools/verify_seed.sh <srcdir (patch.diff, demo_test.go, README.txt)> <seed-id> <property-id>
# Confirms, in a scratch worktree of /repo HEAD: patch applies, suite passes with it, demo fails with it and
# passes without it. Then stores /verif/seeded/<seed-id>/{patch.diff,demo_test.go,meta.json,README.txt}.
set -u
SRC=$(readlink -f "$1"); SEED=$2; PROP=$3
export GOFLAGS=-mod=mod GOPROXY=off GOSUMDB=off GOTOOLCHAIN=local
WT=/tmp/wt/seed-$$
git -C /repo worktree add -q --detach "$WT" HEAD || exit 2
trap 'git -C /repo worktree remove --force "$WT" >/dev/null 2>&1' EXIT
cd "$WT"
if ! git apply "$SRC/patch.diff" 2>/dev/null; then
  if ! patch -p1 --fuzz=3 -s < "$SRC/patch.diff" >/dev/null 2>&1; then echo "$SEED: PATCH-DOES-NOT-APPLY"; exit 3; fi
  find . -name '*.orig' -delete; find . -name '*.rej' -delete
fi
git diff > /tmp/wt/seed-$$.diff
# where does the demo go?
PKG=$(grep -m1 '^package ' "$SRC/demo_test.go" | awk '{print $2}')
case "$PKG" in
  plush|plush_test) DIR=. ;;
  parser|parser_test) DIR=parser ;;
  lexer|lexer_test) DIR=lexer ;;
  iterators|iterators_test) DIR=helpers/iterators ;;
  text|text_test) DIR=helpers/text ;;
  encoders|encoders_test) DIR=helpers/encoders ;;
  escapes|escapes_test) DIR=helpers/escapes ;;
  meta|meta_test) DIR=helpers/meta ;;
  content|content_test) DIR=helpers/content ;;
  ast|ast_test) DIR=ast ;;
  *) echo "$SEED: unknown demo package $PKG"; exit 4 ;;
esac
RACE=""; [ "$PROP" = C14 ] && RACE="-race"
if go build ./... >/dev/null 2>&1 && go test -vet=off -count=1 ./... >/tmp/wt/seed-$$.suite 2>&1; then SUITE=pass; else SUITE=fail; fi
cp "$SRC/demo_test.go" "$DIR/zz_seed_demo_test.go"
if timeout 300 go test $RACE -vet=off -count=1 -run 'Test|Example' "./$DIR" >/tmp/wt/seed-$$.with 2>&1; then WITH=pass; else WITH=fail; fi
# only the demo's own tests matter: does the failure name a test from the demo file?
DEMOTESTS=$(grep -oE '^func (Test[A-Za-z0-9_]*)' "$SRC/demo_test.go" | awk '{print $2}' | paste -sd'|')
if timeout 300 go test $RACE -vet=off -count=1 -run "^($DEMOTESTS)\$" "./$DIR" >/tmp/wt/seed-$$.with 2>&1; then WITH=pass; else WITH=fail; fi
git checkout -q -- . 
if timeout 300 go test $RACE -vet=off -count=1 -run "^($DEMOTESTS)\$" "./$DIR" >/tmp/wt/seed-$$.without 2>&1; then WITHOUT=pass; else WITHOUT=fail; fi
rm -f "$DIR/zz_seed_demo_test.go"
echo "$SEED: suite_with_patch=$SUITE demo_with_patch=$WITH demo_without_patch=$WITHOUT"
if [ "$SUITE" = pass ] && [ "$WITH" = fail ] && [ "$WITHOUT" = pass ]; then
  D=/verif/seeded/$SEED; mkdir -p "$D"
  cp /tmp/wt/seed-$$.diff "$D/patch.diff"; cp "$SRC/demo_test.go" "$D/demo_test.go"; cp "$SRC/README.txt" "$D/README.txt" 2>/dev/null
  python3 - "$D" "$SEED" "$PROP" "$DIR" "$DEMOTESTS" "$RACE" <<'PY'
import json,sys,subprocess
d,seed,prop,dir_,tests,race=sys.argv[1:7]
readme=open(d+'/README.txt').read() if __import__('os').path.exists(d+'/README.txt') else ''
head=subprocess.run(['git','-C','/repo','log','--format=%h','-1'],capture_output=True,text=True).stdout.strip()
meta={"seed":seed,"breaks_property":prop,"needs_to_manifest":"see README.txt (written by the sub-agent that produced the change)",
 "patch_applies_to_repo_commit":head,
 "demo":{"file":"demo_test.go","place_in":dir_,"tests":tests.split('|'),"cmd":"go test %s -vet=off -count=1 -run '^(%s)$' ./%s"%(race,tests,dir_)},
 "confirmed":{"suite_passes_with_patch":True,"demo_fails_with_patch":True,"demo_passes_without_patch":True,
   "how":"tools/verify_seed.sh in a scratch worktree of /repo HEAD (removed afterwards)"},
 "detected_by":[]}
json.dump(meta,open(d+'/meta.json','w'),indent=1)
PY
else
  echo "--- suite tail"; tail -5 /tmp/wt/seed-$$.suite; echo "--- with"; tail -8 /tmp/wt/seed-$$.with; echo "--- without"; tail -8 /tmp/wt/seed-$$.without
fi
rm -f /tmp/wt/seed-$$.*
