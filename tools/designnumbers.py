#!/usr/bin/env python3
"""Rewrites the numbers table of DESIGN.md §0 from /verif/evidence/*.json (quick tier)."""
import json, glob, re, os
V = os.path.dirname(os.path.dirname(os.path.abspath(__file__)))
rows = []
total = 0.0
for f in sorted(glob.glob(V + "/evidence/C*.json")):
    d = json.load(open(f))
    c = d["coverage"]
    oc = sorted(c.get("outcome_classes", {}).items(), key=lambda kv: -kv[1])[:4]
    total += d.get("wall_s", 0)
    rows.append("| %s | %s | %s / %s | %d | %s |" % (
        d["property_id"], format(c["evaluations"], ","), format(c.get("states", 0), ","), format(c.get("transitions", 0), ","),
        round(d.get("wall_s", 0)), ", ".join("%s: %d" % kv for kv in oc)))
p = V + "/DESIGN.md"
s = open(p).read()
head = "| ID | cases executed | states / transitions | wall (s) | outcome classes |\n|---|---|---|---|---|\n"
i = s.index(head)
j = s.index("\n\n", i)
s = s[:i] + head + "\n".join(rows) + s[j:]
s = re.sub(r"the whole quick tier takes about [0-9.]+ minutes", "the whole quick tier takes about %.1f minutes" % (total / 60 + 0.7), s)
open(p, "w").write(s)
print("rows", len(rows), "total wall %.0fs" % total)
