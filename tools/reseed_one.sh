#!/bin/bash
# usage: tools/reseed_one.sh <seed-id> : re-validate one stored seed against /repo HEAD, then run its property's quick check
cd /verif
s=$1; d=/verif/seeded/$s; prop=${s%%-*}
tmp=/tmp/wt/reseed-src-$s; rm -rf $tmp; cp -r $d $tmp
out=$(tools/verify_seed.sh $tmp $s $prop 2>&1 | head -1)
rm -rf $tmp
case "$out" in
  *"suite_with_patch=pass demo_with_patch=fail demo_without_patch=pass"*) ;;
  *) mkdir -p seeded-obsolete; rm -rf seeded-obsolete/$s; mv $d seeded-obsolete/$s; echo "$out" > seeded-obsolete/$s/OBSOLETE.txt; echo "$s OBSOLETE: $out"; exit 0 ;;
esac
res=$(SUITE=0 tools/trymutant.sh "$d/patch.diff" $prop 2>&1)
rc=$(echo "$res" | grep -oE "exit=[0-9]+" | head -1 | cut -d= -f2)
first=$(echo "$res" | sed 's/.*:: //' | cut -c1-300)
python3 - "$d" "$prop" "$rc" "$first" <<'PY'
import json,sys,subprocess
d,prop,rc,first=sys.argv[1:5]
m=json.load(open(d+'/meta.json'))
head=subprocess.run(['git','-C','/repo','log','--format=%h','-1'],capture_output=True,text=True).stdout.strip()
m['patch_applies_to_repo_commit']=head
m['detected_by']=[{"check":prop,"tier":"quick","exit":int(rc or -1),"detected":rc=="1","first_violation":first.strip()}]
json.dump(m,open(d+'/meta.json','w'),indent=1)
PY
echo "$s valid; check exit=$rc"
